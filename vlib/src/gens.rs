//! Shared proptest strategies.
use crate::cal;
use proptest::prelude::*;

pub const DAYS_400Y: i64 = 146097;

/// Lowest / highest 400-year cycle index (cycle k covers day numbers k*146097 .. (k+1)*146097) touching the supported range.
pub fn cycle_range() -> (i64, i64) {
    let lo = cal::fdiv(cal::fdiv(cal::min_unix(), 86400), DAYS_400Y);
    let hi = cal::fdiv(cal::fdiv(cal::max_unix(), 86400), DAYS_400Y);
    (lo - 1, hi + 1)
}

pub fn boundary_times() -> Vec<i64> {
    let mut v = vec![0i64, -1, 1, 86399, 86400, -86400, -86401, 951868800, 951868799, i64::MIN, i64::MIN + 1, i64::MAX, i64::MAX - 1, i64::MIN + 951868800, i64::MIN + 951868799, i64::MIN + 951868801];
    for d in -3..=3 {
        v.push(cal::min_unix().wrapping_add(d));
        v.push(cal::max_unix().wrapping_add(d));
        v.push(cal::min_unix().wrapping_add(d * 86400));
        v.push(cal::max_unix().wrapping_add(d * 86400));
        v.push((i32::MAX as i64) + d);
        v.push((i32::MIN as i64) + d);
        v.push((u32::MAX as i64) + d);
    }
    v
}

/// Unix times: uniform i64 (mostly refused), uniform over the success range, (cycle, day, second) construction, boundaries.
pub fn arb_unix_time() -> SBoxedStrategy<i64> {
    let (klo, khi) = cycle_range();
    let b = boundary_times();
    prop_oneof![
        2 => any::<i64>(),
        3 => cal::min_unix()..=cal::max_unix(),
        4 => (klo..=khi, 0..DAYS_400Y, 0..86400i64).prop_map(|(k, d, s)| (k * DAYS_400Y + d) * 86400 + s),
        2 => (-2_000_000_000i64..6_000_000_000i64),
        2 => (proptest::sample::select(b), -2i64..=2).prop_map(|(x, d)| x.saturating_add(d)),
    ]
    .sboxed()
}

pub fn arb_ns() -> SBoxedStrategy<u32> {
    prop_oneof![
        4 => 0u32..1_000_000_000,
        2 => proptest::sample::select(vec![0u32, 1, 999_999_999, 500_000_000]),
        1 => any::<u32>(),
    ]
    .sboxed()
}

/// Nanoseconds valid by construction.
pub fn arb_valid_ns() -> SBoxedStrategy<u32> {
    prop_oneof![
        4 => 0u32..1_000_000_000,
        2 => proptest::sample::select(vec![0u32, 1, 999_999_999, 500_000_000]),
    ]
    .sboxed()
}

/// Years: full i32, human range, extremes, century / 400 / 4 multiples and their neighbours, the 1970 seam.
pub fn arb_year() -> SBoxedStrategy<i32> {
    prop_oneof![
        2 => any::<i32>(),
        3 => -3000i32..4000,
        2 => (proptest::sample::select(vec![i32::MIN, i32::MAX, 0, 1, -1, 1600, 1900, 1968, 1969, 1970, 1971, 1972, 2000, 2100, 2400, -400, -100, -4]), -4i32..=4).prop_map(|(y, d)| y.saturating_add(d)),
        2 => (-5368708i32..5368708, proptest::sample::select(vec![0i32, 100, 200, 300, 4, 96, 104, 399, 1]), -1i32..=1).prop_map(|(k, r, d)| k.saturating_mul(400).saturating_add(r).saturating_add(d)),
    ]
    .sboxed()
}

#[derive(Debug, Clone, Copy, PartialEq, Eq, Hash, serde::Serialize, serde::Deserialize)]
pub struct Fields {
    pub y: i32,
    pub mo: u8,
    pub d: u8,
    pub h: u8,
    pub mi: u8,
    pub s: u8,
    pub ns: u32,
}

impl Fields {
    pub fn valid(&self) -> bool {
        (1..=12).contains(&self.mo) && self.d >= 1 && (self.d as i64) <= cal::days_in_month(self.y as i64, self.mo as i64) && self.h < 24 && self.mi < 60 && self.s <= 60 && self.ns < 1_000_000_000
    }
    /// civil second count (second 60 = next minute's second 0)
    pub fn civil_secs(&self) -> i128 {
        cal::unix_from_civil(self.y as i64, self.mo as i64, self.d as i64, self.h as i64, self.mi as i64, self.s as i64)
    }
    pub fn from_civil(c: &cal::Civil, ns: u32) -> Option<Fields> {
        Some(Fields { y: i32::try_from(c.y).ok()?, mo: c.mo as u8, d: c.d as u8, h: c.h as u8, mi: c.mi as u8, s: c.s as u8, ns })
    }
}

/// Valid-by-construction civil fields (second 60 included with weight).
pub fn arb_valid_fields() -> SBoxedStrategy<Fields> {
    (arb_year(), 1u8..=12, any::<u32>(), prop_oneof![3 => 0u32..86400, 1 => Just(86399u32), 1 => Just(0u32)], prop_oneof![5 => Just(false), 1 => Just(true)], arb_valid_ns())
        .prop_map(|(y, mo, dd, sod, leap60, ns)| {
            let dim = cal::days_in_month(y as i64, mo as i64) as usize;
            // bias to month ends / starts
            let d = match dd % 8 {
                0 => dim,
                1 => 1,
                2 => dim.saturating_sub(1).max(1),
                _ => crate::run::idx(dd, dim) + 1,
            } as u8;
            let (h, mi, mut s) = ((sod / 3600) as u8, ((sod / 60) % 60) as u8, (sod % 60) as u8);
            if leap60 {
                s = 60;
            }
            Fields { y, mo, d, h, mi, s, ns }
        })
        .sboxed()
}

/// Arbitrary (mostly invalid in exactly one field) civil fields.
pub fn arb_fields_perturbed() -> SBoxedStrategy<Fields> {
    (arb_valid_fields(), 0u8..8, any::<u8>(), any::<u32>())
        .prop_map(|(mut f, which, b, w)| {
            match which {
                0 => f.mo = [0u8, 13, 255, b][(b % 4) as usize],
                1 => f.d = [0u8, 32, 255, 31, 30, 29, b][(b % 7) as usize],
                2 => f.h = [24u8, 25, 255, b][(b % 4) as usize],
                3 => f.mi = [60u8, 61, 255, b][(b % 4) as usize],
                4 => f.s = [61u8, 62, 255, 60, b][(b % 5) as usize],
                5 => f.ns = [1_000_000_000u32, u32::MAX, 999_999_999, w][(b % 4) as usize],
                6 => {
                    f.mo = 2;
                    f.d = [28u8, 29, 30][(b % 3) as usize];
                }
                _ => {
                    f.d = 31;
                }
            }
            f
        })
        .sboxed()
}

// ---------------------------------------------------------------------------------------------
// local time types, rules, leap tables, zones
use crate::model::{MDay, MLtt, MRule, MTrailer, MZone, N_NOTATIONS};
use crate::orule::{self, Class};

const NAME_ALPHABET: &[u8] = b"ABCDEFGHIJKLMNOPQRSTUVWXYZabcdefghijklmnopqrstuvwxyz0123456789+-";

pub fn arb_name() -> SBoxedStrategy<Option<String>> {
    prop_oneof![
        1 => Just(None),
        3 => proptest::sample::select(vec!["UTC", "CET", "CEST", "LMT", "EST", "EDT", "AAA", "BBB", "-03", "+0530", "ABCDEFG"]).prop_map(|s| Some(s.to_string())),
        2 => proptest::collection::vec(0usize..NAME_ALPHABET.len(), 3..=7).prop_map(|v| Some(v.into_iter().map(|i| NAME_ALPHABET[i] as char).collect())),
    ]
    .sboxed()
}

pub fn arb_offset_wide() -> SBoxedStrategy<i32> {
    prop_oneof![
        2 => Just(0i32),
        5 => (-56i32..=60).prop_map(|k| k * 900),
        2 => -3600i32..3600,
        2 => -90000i32..=93600,
        1 => (i32::MIN + 1)..=i32::MAX,
        1 => proptest::sample::select(vec![i32::MAX, i32::MIN + 1, 1, -1, 59, -59, 86400, -86400, 3 * 86400, -3 * 86400]),
    ]
    .sboxed()
}

pub fn arb_offset_rule() -> SBoxedStrategy<i32> {
    prop_oneof![
        1 => Just(0i32),
        5 => (-48i32..=56).prop_map(|k| k * 900),
        2 => -3600i32..3600,
        2 => -89_999i32..=93_599,
        1 => proptest::sample::select(vec![-89_999i32, 93_599, 1, -1]),
    ]
    .sboxed()
}

pub fn arb_ltt_wide() -> SBoxedStrategy<MLtt> {
    (arb_offset_wide(), any::<bool>(), arb_name()).prop_map(|(off, dst, name)| MLtt { off, dst, name }).sboxed()
}

fn arb_rule_time() -> SBoxedStrategy<i32> {
    prop_oneof![
        3 => (0i32..=96).prop_map(|k| k * 900),
        2 => (-167i32..=167).prop_map(|h| h * 3600),
        2 => (-6i32..=6, -1i32..=1).prop_map(|(d, e)| d * 86400 + e),
        2 => -604_799i32..=604_799,
        1 => proptest::sample::select(vec![-604_799i32, 604_799, 7200, 0, 86400]),
    ]
    .sboxed()
}

#[derive(Debug, Clone, serde::Serialize, serde::Deserialize)]
pub struct ClassedRule {
    pub rule: MRule,
    pub class: Class,
}

/// Rules accepted by the constructor, with their class measured over a full 400-year cycle. Ties and overlaps are constructed directly.
pub fn arb_rule() -> SBoxedStrategy<ClassedRule> {
    let raw = (
        (prop_oneof![3 => 0u8..7, 3 => 7u8..9, 1 => Just(9u8), 1 => 10u8..12], 0..N_NOTATIONS, 0..N_NOTATIONS, prop_oneof![3 => -3i64..=3, 2 => proptest::sample::select(vec![-35i64, -14, -7, 7, 14, 35, 28, -28, 21, -21])], 0i64..400),
        (arb_offset_rule(), prop_oneof![4 => Just(None), 3 => arb_offset_rule().prop_map(Some)], 0u8..4),
        (arb_rule_time(), arb_rule_time(), 0i64..3 * 86400),
        (arb_name(), arb_name()),
    );
    raw.prop_filter_map("rule refused by the constructor (or construction impossible)", |((mode, si, ei, near, year), (so, doff_opt, dmode), (stt, et0, extra), (n1, n2))| {
        let mut start = MDay::from_index(si);
        let mut end = if mode % 3 == 0 { MDay::from_index((si as i64 + near).clamp(0, N_NOTATIONS as i64 - 1) as usize) } else { MDay::from_index(ei) };
        let doff = match doff_opt {
            Some(d) => d,
            None => match dmode {
                0 | 1 => (so as i64 + 3600).min(93_599) as i32,
                2 => so,
                _ => (so as i64 - 3600).max(-89_999) as i32,
            },
        };
        let mut et = et0;
        let y = 2000 + year;
        match mode {
            7 | 8 => {
                // tie in year y: S(y) == E(y); partner notation chosen close to the start day so that the needed time shift is small
                if mode == 7 {
                    end = MDay::from_index((si as i64 + near).clamp(0, N_NOTATIONS as i64 - 1) as usize);
                } else {
                    // another notation kind naming (about) the same day in year y: ties in year y, usually not in all years
                    let doy = start.abs_day(y) - cal::days_from_civil(y, 1, 1) + near;
                    end = if ei % 2 == 0 { MDay::J0(doy.clamp(0, 365) as u16) } else { MDay::J1((doy + 1).clamp(1, 365) as u16) };
                    if ei % 3 == 0 {
                        std::mem::swap(&mut start, &mut end);
                    }
                }
                let d = -(start.abs_day(y) - end.abs_day(y)) * 86400;
                let e = stt as i64 - so as i64 + doff as i64 - d;
                if e.abs() >= 604_800 {
                    return None;
                }
                et = e as i32;
            }
            9 => {
                // overlap: DST period longer than a year (E(y) >= S(y+1) for every y)
                start = if si % 2 == 0 { MDay::J1((si % 12) as u16 + 1) } else { MDay::J0((si % 12) as u16) };
                end = if ei % 2 == 0 { MDay::J1(365 - (ei % 10) as u16) } else { MDay::J0(365 - (ei % 10) as u16) };
                let mut d2min = i64::MAX;
                for yy in 2000..2400 {
                    d2min = d2min.min(end.abs_day(yy) - start.abs_day(yy + 1));
                }
                let d = d2min * 86400 - extra;
                let e = stt as i64 - so as i64 + doff as i64 - d;
                if e.abs() >= 604_800 {
                    return None;
                }
                et = e as i32;
            }
            _ => {}
        }
        // distinct designations so that the two halves are always distinguishable
        let name_s = n1.or(Some("STD".to_string()));
        let mut name_d = n2.or(Some("DST".to_string()));
        if name_d == name_s {
            name_d = Some("DDD".to_string());
        }
        let rule = MRule { std: MLtt { off: so, dst: false, name: name_s }, dst: MLtt { off: doff, dst: true, name: name_d }, start, start_time: stt, end, end_time: et };
        let class = orule::classify(&rule);
        if class == Class::Unstable || rule.to_tz().is_err() {
            return None;
        }
        Some(ClassedRule { rule, class })
    })
    .sboxed()
}

/// Valid leap tables: first time >= 0 with correction +-1, steps +-1, gaps from {minimal, +1, +2, days, years}; or the real table.
pub fn arb_leap_table(max: usize) -> SBoxedStrategy<Vec<(i64, i32)>> {
    let gap = prop_oneof![
        3 => Just(28 * 86400i64 - 1),
        1 => Just(28 * 86400i64),
        1 => Just(28 * 86400i64 + 1),
        3 => (28i64..2000).prop_map(|d| d * 86400),
        2 => (28 * 86400i64..40_000_000),
        1 => (1i64..4000).prop_map(|y| y * 31_556_952),
    ];
    let first = prop_oneof![2 => Just(0i64), 3 => 0i64..2_000_000_000, 1 => 0i64..(1i64 << 61)];
    let steps = proptest::collection::vec((gap, prop_oneof![3 => Just(1i32), 2 => Just(-1i32)]), 0..max);
    let gen = (first, prop_oneof![3 => Just(1i32), 2 => Just(-1i32)], steps).prop_map(|(t0, c0, steps)| {
        let mut v = vec![(t0, c0)];
        let (mut t, mut c) = (t0, c0);
        for (g, s) in steps {
            match t.checked_add(g) {
                Some(nt) => t = nt,
                None => break,
            }
            c += s;
            v.push((t, c));
        }
        v
    });
    prop_oneof![
        1 => Just(vec![]),
        5 => gen,
        2 => (0usize..=27).prop_map(|n| crate::oleap::real_table()[..n].to_vec()),
    ]
    .sboxed()
}

#[derive(Debug, Clone, Copy)]
pub struct ZoneCfg {
    pub max_trans: usize,
    pub leaps: bool,
    /// allow i64-wide transition times (otherwise |t| stays below 4e10)
    pub wide_times: bool,
}

fn arb_gap() -> SBoxedStrategy<i64> {
    prop_oneof![
        2 => Just(1i64),
        2 => 2i64..100,
        3 => 100i64..7200,
        3 => (1i64..48).prop_map(|h| h * 1800),
        4 => 86400i64..40_000_000,
        2 => 30_000_000i64..3_000_000_000,
        1 => (1i64 << 40)..(1i64 << 62),
    ]
    .sboxed()
}

/// Valid zones by construction (all six shapes): table only / rule only / table+fixed / table+DST rule, each with or without leap table.
/// The last transition's type is set to what the trailer prescribes at its switch instant (O-leap + O-rule).
pub fn arb_zone(cfg: ZoneCfg) -> SBoxedStrategy<MZone> {
    let start = if cfg.wide_times {
        prop_oneof![
            1 => Just(i64::MIN + 1),
            1 => Just(i64::MIN),
            2 => -(1i64 << 62)..(1i64 << 62),
            4 => -40_000_000_000i64..40_000_000_000,
            4 => -2_000_000_000i64..2_000_000_000,
        ]
        .sboxed()
    } else {
        prop_oneof![
            4 => -40_000_000_000i64..40_000_000_000,
            4 => -2_000_000_000i64..2_000_000_000,
        ]
        .sboxed()
    };
    let leaps = if cfg.leaps { prop_oneof![3 => Just(vec![]), 2 => arb_leap_table(10)].sboxed() } else { Just(vec![]).sboxed() };
    let trans_raw = proptest::collection::vec((arb_gap(), any::<u32>()), 0..=cfg.max_trans);
    (
        (0u8..8, proptest::collection::vec(arb_ltt_wide(), 1..6), arb_rule(), arb_ltt_wide()),
        (start, trans_raw, leaps, any::<u32>()),
    )
        .prop_map(|((shape, mut types, cr, fixed), (t0, raw, leaps, pos))| {
            // shape: 0,1 table only; 2 rule only; 3 fixed only; 4 table+fixed; 5,6,7 table+rule
            let trailer = match shape {
                0 | 1 => MTrailer::None,
                3 | 4 => MTrailer::Fixed(fixed.clone()),
                _ => MTrailer::Alt(cr.rule.clone()),
            };
            let rule_zone = matches!(trailer, MTrailer::Alt(_));
            let want_table = !matches!(shape, 2 | 3);
            // make sure the trailer's types are present in the table's type list (random position)
            let ins = |types: &mut Vec<MLtt>, t: &MLtt, p: u32| -> usize {
                let at = crate::run::idx(p, types.len() + 1);
                types.insert(at, t.clone());
                at
            };
            match &trailer {
                MTrailer::Fixed(f) => {
                    ins(&mut types, f, pos);
                }
                MTrailer::Alt(r) => {
                    ins(&mut types, &r.std, pos);
                    ins(&mut types, &r.dst, pos.rotate_left(13));
                }
                MTrailer::None => {}
            }
            let mut trans: Vec<(i64, usize)> = vec![];
            if want_table && !(rule_zone && !cr.class.interleaves() && crate::search::overlap_listed_as_known()) {
                let limit = if rule_zone { 60_000_000_000_000_000i64 } else { i64::MAX };
                let mut t = if rule_zone { t0.clamp(-limit, limit) } else { t0 };
                for (k, (gap, ti)) in raw.iter().enumerate() {
                    if k > 0 {
                        match t.checked_add(*gap) {
                            Some(nt) if nt <= limit => t = nt,
                            _ => break,
                        }
                    }
                    trans.push((t, crate::run::idx(*ti, types.len())));
                }
            }
            let mut z = MZone { trans, types, leaps, trailer };
            // fix the last transition's type to what the trailer prescribes at its switch instant
            if let Some(&(t_last, _)) = z.trans.last() {
                let want: Option<MLtt> = match &z.trailer {
                    MTrailer::None => None,
                    MTrailer::Fixed(f) => Some(f.clone()),
                    MTrailer::Alt(r) => {
                        if t_last == i64::MIN {
                            z.trans.clear();
                            None
                        } else {
                            match crate::oleap::g(&z.leaps, t_last) {
                                Some(u) => Some(if orule::is_dst(r, cr.class, u) { r.dst.clone() } else { r.std.clone() }),
                                None => {
                                    z.trans.clear();
                                    None
                                }
                            }
                        }
                    }
                };
                if let (Some(w), false) = (want, z.trans.is_empty()) {
                    if matches!(z.trailer, MTrailer::Fixed(_)) && t_last == i64::MIN {
                        // last transition at i64::MIN with a trailer: pinned refusal (unspecified corner) - move it
                        let n = z.trans.len();
                        if n == 1 {
                            z.trans[0].0 = i64::MIN + 1;
                        }
                    }
                    let at = z.types.iter().position(|t| *t == w).expect("trailer type present");
                    let n = z.trans.len();
                    z.trans[n - 1].1 = at;
                }
            }
            z
        })
        .sboxed()
}

/// zic-style zones: the table consists of the trailing rule's own transition instants for some years (optionally preceded by an
/// LMT-like segment), cut after an arbitrary event, so that the last table transition coincides exactly with a rule-generated instant.
pub fn arb_aligned_zone() -> SBoxedStrategy<MZone> {
    (arb_rule(), 1800i64..2200, 1usize..9, any::<bool>(), prop_oneof![3 => Just(vec![]), 1 => arb_leap_table(6), 1 => Just(crate::oleap::real_table())], arb_ltt_wide())
        .prop_filter_map("rule not usable for an aligned table", |(cr, y0, n_events, lmt, leaps, first)| {
            if !cr.class.interleaves() {
                return None;
            }
            let r = &cr.rule;
            let mut ev: Vec<(i64, bool)> = vec![];
            for y in y0..y0 + 6 {
                ev.push((r.s(y), true));
                ev.push((r.e(y), false));
            }
            ev.sort();
            // drop coincident instants (zero-length periods): they are not transitions
            let mut clean: Vec<(i64, bool)> = vec![];
            let mut i = 0;
            while i < ev.len() {
                if i + 1 < ev.len() && ev[i].0 == ev[i + 1].0 {
                    i += 2;
                    continue;
                }
                clean.push(ev[i]);
                i += 1;
            }
            // keep only genuine changes according to the model
            let clean: Vec<(i64, bool)> = clean.into_iter().filter(|&(t, to_dst)| orule::is_dst(r, cr.class, t) == to_dst && orule::is_dst(r, cr.class, t - 1) != to_dst).collect();
            if clean.len() < n_events {
                return None;
            }
            let mut types = vec![first, r.std.clone(), r.dst.clone()];
            if !lmt {
                types.remove(0);
                types.insert(0, if orule::is_dst(r, cr.class, clean[0].0 - 1) { r.dst.clone() } else { r.std.clone() });
            }
            let mut trans = vec![];
            for &(t, to_dst) in clean.iter().take(n_events) {
                let lt = crate::oleap::f(&leaps, t);
                if lt > i64::MAX as i128 || lt < i64::MIN as i128 {
                    return None;
                }
                // a transition must not sit on a count without UTC pre-image; F(t) always has one
                trans.push((lt as i64, if to_dst { 2 } else { 1 }));
            }
            Some(MZone { trans, types, leaps, trailer: MTrailer::Alt(r.clone()) })
        })
        .sboxed()
}


/// Zones whose table transitions sit within a few hours of leap-second records (offsets up to +-14 h), so that a leap second lies
/// between a searched wall-clock value and its candidate instants.
pub fn arb_leap_adjacent_zone() -> SBoxedStrategy<MZone> {
    (
        prop_oneof![2 => Just(crate::oleap::real_table()), 2 => arb_leap_table(6)],
        proptest::collection::vec((any::<u32>(), prop_oneof![2 => -2i64..=2, 3 => -50_400i64..50_400], (-56i32..=56).prop_map(|k| k * 900), any::<bool>()), 1..6),
        (-56i32..=56).prop_map(|k| k * 900),
        0u8..3,
    )
        .prop_filter_map("needs a leap table", |(leaps, raw, off0, trailer_kind)| {
            if leaps.is_empty() {
                return None;
            }
            let mut types = vec![MLtt::new(off0, false, Some("LMT"))];
            let mut pts: Vec<(i64, usize)> = vec![];
            for (k, (sel, delta, off, dst)) in raw.iter().enumerate() {
                let l = leaps[crate::run::idx(*sel, leaps.len())].0;
                let t = l.checked_add(*delta)?;
                types.push(MLtt { off: *off, dst: *dst, name: Some(format!("T{k:02}")) });
                pts.push((t, types.len() - 1));
            }
            pts.sort();
            pts.dedup_by_key(|p| p.0);
            // two transitions must not take effect at the same UTC instant
            let mut last_u = None;
            for p in &pts {
                let u = crate::oleap::g(&leaps, p.0)?;
                if last_u == Some(u) {
                    return None;
                }
                last_u = Some(u);
            }
            let trailer = match trailer_kind {
                0 => MTrailer::None,
                _ => MTrailer::Fixed(types[pts.last()?.1].clone()),
            };
            Some(MZone { trans: pts, types, leaps, trailer })
        })
        .sboxed()
}

/// Zones with a forward or backward transition within one offset of either end of the supported range.
pub fn arb_range_edge_zone() -> SBoxedStrategy<MZone> {
    (any::<bool>(), 0i64..200_000, -50_400i32..50_400, -50_400i32..50_400, any::<bool>())
        .prop_map(|(top, dist, a, b, fixed)| {
            let t = if top { cal::max_unix() - dist } else { cal::min_unix() + dist };
            let types = vec![MLtt::new(a, false, Some("AAA")), MLtt::new(b, true, Some("BBB"))];
            let trailer = if fixed { MTrailer::Fixed(types[1].clone()) } else { MTrailer::None };
            // without trailer the last transition is ignored by the search: add a second one far away
            let trans = if fixed { vec![(t, 1)] } else if top { vec![(t, 1), (i64::MAX - 5, 1)] } else { vec![(t, 1), (t.saturating_add(400_000), 0)] };
            MZone { trans, types, leaps: vec![], trailer }
        })
        .sboxed()
}

/// Zones with many (9..14) local time types, every transition using another one.
pub fn arb_many_types_zone() -> SBoxedStrategy<MZone> {
    // 9..14 types, or (one case in five) 257..=300 types: more than a one-byte index / a 256-slot table can address
    (prop_oneof![4 => 9usize..14, 1 => 257usize..=300], -1_000_000_000i64..1_000_000_000, proptest::collection::vec((3600i64..40_000_000, -50_400i32..50_400), 14), any::<bool>())
        .prop_map(|(n, t0, steps, rev)| {
            let mut types = vec![];
            let mut trans = vec![];
            let mut t = t0;
            for k in 0..n {
                let st = steps[k % 14];
                types.push(MLtt { off: st.1 + (k / 14) as i32 * 60, dst: k % 2 == 1, name: Some(if n < 100 { format!("Y{k:02}") } else { format!("Y{k:03}") }) });
                if k > 0 {
                    t += if n < 100 { st.0 } else { st.0 / 16 };
                    trans.push((t, if rev { n - k } else { k }));
                }
            }
            MZone { trans, types, leaps: vec![], trailer: MTrailer::None }
        })
        .sboxed()
}
