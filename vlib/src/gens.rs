//! Shared proptest strategies.
use crate::cal;
use proptest::prelude::*;

pub const DAYS_400Y: i64 = 146097;

/// Lowest / highest 400-year cycle index (cycle k covers day numbers k*146097 .. (k+1)*146097) touching the supported range.
pub fn cycle_range() -> (i64, i64) {
    let lo = cal::fdiv(cal::fdiv(cal::min_unix(), 86400), DAYS_400Y);
    let hi = cal::fdiv(cal::fdiv(cal::max_unix(), 86400), DAYS_400Y);
    (lo - 1, hi + 1)
}

pub fn boundary_times() -> Vec<i64> {
    let mut v = vec![0i64, -1, 1, 86399, 86400, -86400, -86401, 951868800, 951868799, i64::MIN, i64::MIN + 1, i64::MAX, i64::MAX - 1, i64::MIN + 951868800, i64::MIN + 951868799, i64::MIN + 951868801];
    for d in -3..=3 {
        v.push(cal::min_unix().wrapping_add(d));
        v.push(cal::max_unix().wrapping_add(d));
        v.push(cal::min_unix().wrapping_add(d * 86400));
        v.push(cal::max_unix().wrapping_add(d * 86400));
        v.push((i32::MAX as i64) + d);
        v.push((i32::MIN as i64) + d);
        v.push((u32::MAX as i64) + d);
    }
    v
}

/// Unix times: uniform i64 (mostly refused), uniform over the success range, (cycle, day, second) construction, boundaries.
pub fn arb_unix_time() -> SBoxedStrategy<i64> {
    let (klo, khi) = cycle_range();
    let b = boundary_times();
    prop_oneof![
        2 => any::<i64>(),
        3 => cal::min_unix()..=cal::max_unix(),
        4 => (klo..=khi, 0..DAYS_400Y, 0..86400i64).prop_map(|(k, d, s)| (k * DAYS_400Y + d) * 86400 + s),
        2 => (-2_000_000_000i64..6_000_000_000i64),
        2 => (proptest::sample::select(b), -2i64..=2).prop_map(|(x, d)| x.saturating_add(d)),
    ]
    .sboxed()
}

pub fn arb_ns() -> SBoxedStrategy<u32> {
    prop_oneof![
        4 => 0u32..1_000_000_000,
        2 => proptest::sample::select(vec![0u32, 1, 999_999_999, 500_000_000]),
        1 => any::<u32>(),
    ]
    .sboxed()
}

/// Nanoseconds valid by construction.
pub fn arb_valid_ns() -> SBoxedStrategy<u32> {
    prop_oneof![
        4 => 0u32..1_000_000_000,
        2 => proptest::sample::select(vec![0u32, 1, 999_999_999, 500_000_000]),
    ]
    .sboxed()
}
