//! Shared proptest strategies.
use crate::cal;
use proptest::prelude::*;

pub const DAYS_400Y: i64 = 146097;

/// Lowest / highest 400-year cycle index (cycle k covers day numbers k*146097 .. (k+1)*146097) touching the supported range.
pub fn cycle_range() -> (i64, i64) {
    let lo = cal::fdiv(cal::fdiv(cal::min_unix(), 86400), DAYS_400Y);
    let hi = cal::fdiv(cal::fdiv(cal::max_unix(), 86400), DAYS_400Y);
    (lo - 1, hi + 1)
}

pub fn boundary_times() -> Vec<i64> {
    let mut v = vec![0i64, -1, 1, 86399, 86400, -86400, -86401, 951868800, 951868799, i64::MIN, i64::MIN + 1, i64::MAX, i64::MAX - 1, i64::MIN + 951868800, i64::MIN + 951868799, i64::MIN + 951868801];
    for d in -3..=3 {
        v.push(cal::min_unix().wrapping_add(d));
        v.push(cal::max_unix().wrapping_add(d));
        v.push(cal::min_unix().wrapping_add(d * 86400));
        v.push(cal::max_unix().wrapping_add(d * 86400));
        v.push((i32::MAX as i64) + d);
        v.push((i32::MIN as i64) + d);
        v.push((u32::MAX as i64) + d);
    }
    v
}

/// Unix times: uniform i64 (mostly refused), uniform over the success range, (cycle, day, second) construction, boundaries.
pub fn arb_unix_time() -> SBoxedStrategy<i64> {
    let (klo, khi) = cycle_range();
    let b = boundary_times();
    prop_oneof![
        2 => any::<i64>(),
        3 => cal::min_unix()..=cal::max_unix(),
        4 => (klo..=khi, 0..DAYS_400Y, 0..86400i64).prop_map(|(k, d, s)| (k * DAYS_400Y + d) * 86400 + s),
        2 => (-2_000_000_000i64..6_000_000_000i64),
        2 => (proptest::sample::select(b), -2i64..=2).prop_map(|(x, d)| x.saturating_add(d)),
    ]
    .sboxed()
}

pub fn arb_ns() -> SBoxedStrategy<u32> {
    prop_oneof![
        4 => 0u32..1_000_000_000,
        2 => proptest::sample::select(vec![0u32, 1, 999_999_999, 500_000_000]),
        1 => any::<u32>(),
    ]
    .sboxed()
}

/// Nanoseconds valid by construction.
pub fn arb_valid_ns() -> SBoxedStrategy<u32> {
    prop_oneof![
        4 => 0u32..1_000_000_000,
        2 => proptest::sample::select(vec![0u32, 1, 999_999_999, 500_000_000]),
    ]
    .sboxed()
}

/// Years: full i32, human range, extremes, century / 400 / 4 multiples and their neighbours, the 1970 seam.
pub fn arb_year() -> SBoxedStrategy<i32> {
    prop_oneof![
        2 => any::<i32>(),
        3 => -3000i32..4000,
        2 => (proptest::sample::select(vec![i32::MIN, i32::MAX, 0, 1, -1, 1600, 1900, 1968, 1969, 1970, 1971, 1972, 2000, 2100, 2400, -400, -100, -4]), -4i32..=4).prop_map(|(y, d)| y.saturating_add(d)),
        2 => (-5368708i32..5368708, proptest::sample::select(vec![0i32, 100, 200, 300, 4, 96, 104, 399, 1]), -1i32..=1).prop_map(|(k, r, d)| k.saturating_mul(400).saturating_add(r).saturating_add(d)),
    ]
    .sboxed()
}

#[derive(Debug, Clone, Copy, PartialEq, Eq, Hash, serde::Serialize, serde::Deserialize)]
pub struct Fields {
    pub y: i32,
    pub mo: u8,
    pub d: u8,
    pub h: u8,
    pub mi: u8,
    pub s: u8,
    pub ns: u32,
}

impl Fields {
    pub fn valid(&self) -> bool {
        (1..=12).contains(&self.mo) && self.d >= 1 && (self.d as i64) <= cal::days_in_month(self.y as i64, self.mo as i64) && self.h < 24 && self.mi < 60 && self.s <= 60 && self.ns < 1_000_000_000
    }
    /// civil second count (second 60 = next minute's second 0)
    pub fn civil_secs(&self) -> i128 {
        cal::unix_from_civil(self.y as i64, self.mo as i64, self.d as i64, self.h as i64, self.mi as i64, self.s as i64)
    }
    pub fn from_civil(c: &cal::Civil, ns: u32) -> Option<Fields> {
        Some(Fields { y: i32::try_from(c.y).ok()?, mo: c.mo as u8, d: c.d as u8, h: c.h as u8, mi: c.mi as u8, s: c.s as u8, ns })
    }
}

/// Valid-by-construction civil fields (second 60 included with weight).
pub fn arb_valid_fields() -> SBoxedStrategy<Fields> {
    (arb_year(), 1u8..=12, any::<u32>(), prop_oneof![3 => 0u32..86400, 1 => Just(86399u32), 1 => Just(0u32)], prop_oneof![5 => Just(false), 1 => Just(true)], arb_valid_ns())
        .prop_map(|(y, mo, dd, sod, leap60, ns)| {
            let dim = cal::days_in_month(y as i64, mo as i64) as usize;
            // bias to month ends / starts
            let d = match dd % 8 {
                0 => dim,
                1 => 1,
                2 => dim.saturating_sub(1).max(1),
                _ => crate::run::idx(dd, dim) + 1,
            } as u8;
            let (h, mi, mut s) = ((sod / 3600) as u8, ((sod / 60) % 60) as u8, (sod % 60) as u8);
            if leap60 {
                s = 60;
            }
            Fields { y, mo, d, h, mi, s, ns }
        })
        .sboxed()
}

/// Arbitrary (mostly invalid in exactly one field) civil fields.
pub fn arb_fields_perturbed() -> SBoxedStrategy<Fields> {
    (arb_valid_fields(), 0u8..8, any::<u8>(), any::<u32>())
        .prop_map(|(mut f, which, b, w)| {
            match which {
                0 => f.mo = [0u8, 13, 255, b][(b % 4) as usize],
                1 => f.d = [0u8, 32, 255, 31, 30, 29, b][(b % 7) as usize],
                2 => f.h = [24u8, 25, 255, b][(b % 4) as usize],
                3 => f.mi = [60u8, 61, 255, b][(b % 4) as usize],
                4 => f.s = [61u8, 62, 255, 60, b][(b % 5) as usize],
                5 => f.ns = [1_000_000_000u32, u32::MAX, 999_999_999, w][(b % 4) as usize],
                6 => {
                    f.mo = 2;
                    f.d = [28u8, 29, 30][(b % 3) as usize];
                }
                _ => {
                    f.d = 31;
                }
            }
            f
        })
        .sboxed()
}
