//! vcheck <ID> [--tier quick|thorough] [--replay FILE]
//! exit 0: held on everything explored; exit 1 + "VIOLATION property=<ID> replay=<path>"; exit 2: infrastructure.
use std::time::{Duration, Instant};
use vlib::run::{write_evidence, write_replay, Ctx, Tier};

#[global_allocator]
static ALLOC: vlib::alloccount::Counting = vlib::alloccount::Counting;

fn usage() -> ! {
    eprintln!("usage: vcheck <ID> [--tier quick|thorough] [--replay FILE]");
    std::process::exit(2)
}

fn main() {
    if let Ok(p) = std::env::var("VERIF_C15_CHILD") {
        std::process::exit(vlib::props::c15::child_main(&p));
    }
    let args: Vec<String> = std::env::args().skip(1).collect();
    if args.is_empty() {
        usage();
    }
    let id = args[0].clone();
    let mut tier = match std::env::var("VERIF_TIER").ok().as_deref() {
        Some("thorough") => Tier::Thorough,
        _ => Tier::Quick,
    };
    let mut replay: Option<String> = None;
    let mut i = 1;
    while i < args.len() {
        match args[i].as_str() {
            "--tier" => {
                i += 1;
                tier = match args.get(i).map(|s| s.as_str()) {
                    Some("quick") => Tier::Quick,
                    Some("thorough") => Tier::Thorough,
                    _ => usage(),
                };
            }
            "--replay" => {
                i += 1;
                replay = Some(args.get(i).cloned().unwrap_or_else(|| usage()));
            }
            _ => usage(),
        }
        i += 1;
    }
    let seed: u64 = std::env::var("VERIF_SEED").ok().and_then(|s| s.trim().parse::<i128>().ok()).map(|v| v as u64).unwrap_or(0);

    // quiet panic hook: panics of the code under test are caught and reported as failures with their case
    vlib::run::install_panic_hook();

    // watchdog: a hang is inconclusive (exit 2), never a violation
    let limit = Duration::from_secs(std::env::var("VERIF_WATCHDOG_S").ok().and_then(|s| s.parse().ok()).unwrap_or(match tier {
        Tier::Quick => 900,
        Tier::Thorough => 4 * 3600,
    }));
    let wid = id.clone();
    std::thread::spawn(move || {
        std::thread::sleep(limit);
        eprintln!("INCONCLUSIVE property={wid}: watchdog after {limit:?}");
        std::process::exit(2);
    });

    if let Err(e) = vlib::cal::selftest() {
        eprintln!("ORACLE SELF-TEST FAILED (calendar): {e}");
        std::process::exit(2);
    }

    if let Some(path) = replay {
        let text = String::from_utf8_lossy(&std::fs::read(&path).unwrap_or_else(|e| {
            eprintln!("cannot read replay file {path}: {e}");
            std::process::exit(2)
        })).to_string();
        let v: serde_json::Value = match serde_json::from_str(&text) {
            Ok(v) => v,
            Err(e) => {
                if id == "C07" {
                    // raw libFuzzer artifact
                    match std::panic::catch_unwind(|| vlib::props::c07::replay_raw(&path)) {
                        Ok(Ok(())) => {
                            println!("REPLAY-PASS property={id} replay={path}");
                            std::process::exit(0);
                        }
                        Ok(Err(m)) => {
                            println!("REPLAY-FAIL property={id}: {m}");
                            println!("VIOLATION property={id} replay={path}");
                            std::process::exit(1);
                        }
                        Err(p) => {
                            println!("REPLAY-FAIL property={id}: PANIC {}", vlib::run::panic_msg(&p));
                            println!("VIOLATION property={id} replay={path}");
                            std::process::exit(1);
                        }
                    }
                }
                eprintln!("replay file is not JSON: {e}");
                std::process::exit(2)
            }
        };
        let kind = v["kind"].as_str().unwrap_or("").to_string();
        let r = std::panic::catch_unwind(|| vlib::props::replay(&id, &kind, &v["case"]));
        match r {
            Ok(Some(Ok(()))) => {
                println!("REPLAY-PASS property={id} replay={path}");
                std::process::exit(0);
            }
            Ok(Some(Err(msg))) => {
                println!("REPLAY-FAIL property={id}: {msg}");
                println!("VIOLATION property={id} replay={path}");
                std::process::exit(1);
            }
            Ok(None) => {
                eprintln!("unknown property {id}");
                std::process::exit(2);
            }
            Err(p) => {
                let m = vlib::run::panic_msg(&p);
                if m.starts_with(vlib::run::HARNESS_PANIC) {
                    eprintln!("INCONCLUSIVE property={id}: {m}");
                    std::process::exit(2);
                }
                println!("REPLAY-FAIL property={id}: PANIC {m}");
                println!("VIOLATION property={id} replay={path}");
                std::process::exit(1);
            }
        }
    }

    // committed regression cases (minimal reproductions of repaired or previously reported failures) are replayed first
    if let Ok(rd) = std::fs::read_dir(vlib::run::verif_dir().join("regress")) {
        let mut files: Vec<_> = rd.filter_map(|e| e.ok()).map(|e| e.path()).filter(|p| p.extension().map(|x| x == "json").unwrap_or(false)).collect();
        files.sort();
        for path in files {
            let Ok(text) = std::fs::read_to_string(&path) else { continue };
            let Ok(v) = serde_json::from_str::<serde_json::Value>(&text) else { continue };
            let applies = v["property"].as_str() == Some(id.as_str()) || v["properties"].as_array().map(|a| a.iter().any(|x| x.as_str() == Some(id.as_str()))).unwrap_or(false);
            if !applies {
                continue;
            }
            let kind = v["kind"].as_str().unwrap_or("").to_string();
            match std::panic::catch_unwind(|| vlib::props::replay(&id, &kind, &v["case"])) {
                Ok(Some(Ok(()))) => {}
                Ok(Some(Err(msg))) => {
                    println!("FAILURE property={id} kind=regress : {msg}");
                    println!("VIOLATION property={id} replay={}", path.display());
                    std::process::exit(1);
                }
                Ok(None) => {}
                Err(p) => {
                    let m = vlib::run::panic_msg(&p);
                    if m.starts_with(vlib::run::HARNESS_PANIC) {
                        eprintln!("INCONCLUSIVE property={id}: {m}");
                        std::process::exit(2);
                    }
                    println!("FAILURE property={id} kind=regress : PANIC {m}");
                    println!("VIOLATION property={id} replay={}", path.display());
                    std::process::exit(1);
                }
            }
        }
    }

    let ctx = Ctx { id: id.clone(), tier, seed, start: Instant::now() };
    let out = match std::panic::catch_unwind(|| vlib::props::run(&ctx)) {
        Ok(Some(o)) => o,
        Ok(None) => {
            eprintln!("unknown property {id}");
            std::process::exit(2);
        }
        Err(p) => {
            // a panic outside any generated case (set-up code of the check): never reported as a violation
            eprintln!("INCONCLUSIVE property={id}: panic outside a generated case: {}", vlib::run::panic_msg(&p));
            std::process::exit(2);
        }
    };
    for k in &out.known_hits {
        println!("KNOWN-FINDING: property={id} {k}");
    }
    match &out.failure {
        None => {
            write_evidence(&ctx, &out, 0);
            println!(
                "OK property={id} tier={} seed={seed} evaluations={} distinct_nontrivial={} wall_s={:.1}",
                tier.name(),
                out.stats.evaluations,
                out.stats.distinct_nontrivial(),
                ctx.start.elapsed().as_secs_f64()
            );
            std::process::exit(0);
        }
        Some(fl) if fl.kind == "abort" || fl.kind == "infra" => {
            eprintln!("INCONCLUSIVE property={id}: {}", fl.summary);
            std::process::exit(2);
        }
        Some(fl) => {
            write_evidence(&ctx, &out, 1);
            let path = write_replay(&id, fl);
            println!("FAILURE property={id} kind={} : {}", fl.kind, fl.summary);
            println!("CASE {}", serde_json::to_string(&fl.case).unwrap_or_default());
            println!("VIOLATION property={id} replay={}", path.display());
            std::process::exit(1);
        }
    }
}
