//! The clock-reading entry points (`find_current_local_time_type`, `DateTime::now`, `UtcDateTime::now`): side entrances to C03 / C14.
//! The system clock is ambient, so the oracle brackets it: the harness reads the clock before (t0) and after (t1) the call, and the
//! answer must be the model's answer for SOME instant of [t0, t1]. Zones are built around the clock reading (transitions and DST-rule
//! instants a few seconds either side of "now"), so the comparison is not vacuous; a case stores offsets from "now", never the reading.
use crate::cal;
use crate::dtinv::check_dt;
use crate::model::{MDay, MLtt, MRule, MTrailer, MZone};
use crate::orule;
use crate::ozone::{Fwd, ZoneModel};
use crate::run::Stats;
use serde::{Deserialize, Serialize};
use tz::timezone::{TimeZone, TimeZoneRef};
use tz::{DateTime, TzError, UtcDateTime};

#[derive(Debug, Clone, Serialize, Deserialize)]
pub struct ClockCase {
    /// transition times relative to the clock reading (on the UTC scale; shifted by the leap correction when `leaps`)
    pub deltas: Vec<i64>,
    /// 0 = table without trailer, 1 = table + fixed trailer, 2 = DST rule only (start instant at now + rule_delta), 3 = table + DST rule
    pub kind: u8,
    pub leaps: bool,
    pub rule_delta: i64,
    pub std_off: i32,
    pub save: i32,
}

fn now_secs() -> i64 {
    std::time::SystemTime::now().duration_since(std::time::UNIX_EPOCH).map(|d| d.as_secs() as i64).unwrap_or(0)
}

const REAL_LEAPS: [i64; 27] = [
    78796800, 94694401, 126230402, 157766403, 189302404, 220924805, 252460806, 283996807, 315532808, 362793609, 394329610, 425865611, 489024012, 567993613, 631152014, 662688015, 709948816, 741484817, 773020818, 820454419, 867715220, 915148821,
    1136073622, 1230768023, 1341100824, 1435708825, 1483228826,
];

fn build(c: &ClockCase, now: i64) -> Option<MZone> {
    let types = vec![MLtt::new(c.std_off, false, Some("STD")), MLtt::new(c.std_off.checked_add(c.save)?, true, Some("DST")), MLtt::new(-12345, false, Some("LMT")), MLtt::new(c.std_off, false, Some("ALT"))];
    let leaps: Vec<(i64, i32)> = if c.leaps { REAL_LEAPS.iter().enumerate().map(|(i, &t)| (t, i as i32 + 1)).collect() } else { vec![] };
    let shift = leaps.len() as i64;
    let mut ds = c.deltas.clone();
    ds.sort();
    ds.dedup();
    // the rule: DST starts today at (now + rule_delta) and ends ~100 days later
    let cv = cal::civil_from_unix(now as i128);
    let rule = {
        let yd = cal::year_day(cv.y, cv.mo, cv.d);
        let sod = cv.h * 3600 + cv.mi * 60 + cv.s;
        let end_day = (yd + 100) % 365;
        MRule { std: types[0].clone(), dst: types[1].clone(), start: MDay::J0(yd as u16), start_time: (sod + c.rule_delta + c.std_off as i64) as i32, end: MDay::J0(end_day as u16), end_time: 7200 }
    };
    let (trans, trailer): (Vec<(i64, usize)>, MTrailer) = match c.kind {
        0 => (ds.iter().enumerate().map(|(k, &d)| (now + shift + d, [2usize, 0, 1, 3][k % 4])).collect(), MTrailer::None),
        1 => {
            let mut t: Vec<(i64, usize)> = ds.iter().enumerate().map(|(k, &d)| (now + shift + d, [2usize, 0, 1, 3][k % 4])).collect();
            if let Some(l) = t.last_mut() {
                l.1 = 3;
            }
            (t, MTrailer::Fixed(types[3].clone()))
        }
        2 => (vec![], MTrailer::Alt(rule)),
        _ => {
            // table well before now (ends 40 days ago), then the rule; the last transition's type is what the rule prescribes there
            rule.to_tz().ok()?;
            let cls = orule::classify(&rule);
            let last = now - 40 * 86400;
            let ty = if orule::is_dst(&rule, cls, last) { 1 } else { 0 };
            (vec![(last - 1000 + shift, 2), (last + shift, ty)], MTrailer::Alt(rule))
        }
    };
    Some(MZone { trans, types, leaps, trailer })
}

fn fwd_matches(model: &ZoneModel, t: i64, got: &Result<&tz::LocalTimeType, TzError>) -> bool {
    match (model.forward(t), got) {
        (Fwd::Type(tr), Ok(l)) => model.ltt(tr).same_as(l),
        (Fwd::NoType, Err(TzError::NoAvailableLocalTimeType)) => true,
        (Fwd::OutOfRange, Err(TzError::OutOfRange)) => true,
        (Fwd::Unspecified, _) => true,
        _ => false,
    }
}

/// `lookup`: assert `find_current_local_time_type` (C03); `values`: assert `DateTime::now` / `UtcDateTime::now` (C14).
pub fn check_clock(c: &ClockCase, lookup: bool, values: bool, st: &mut Stats) -> Result<(), String> {
    let base = now_secs();
    let z = match build(c, base) {
        Some(z) => z,
        None => return Ok(()),
    };
    let parts = match z.parts() {
        Ok(p) => p,
        Err(_) => {
            st.class("clock_rule_not_accepted");
            return Ok(());
        }
    };
    let zr = TimeZoneRef::new(&parts.transitions, &parts.types, &parts.leaps, &parts.rule).map_err(|e| format!("valid-by-construction clock zone refused: {e:?} ({z:?})"))?;
    let owned = TimeZone::new(parts.transitions.clone(), parts.types.clone(), parts.leaps.clone(), parts.rule).map_err(|e| format!("owned constructor refused: {e:?}"))?;
    let model = ZoneModel::new(&z);
    st.eval(1);
    let near = c.kind == 2 && c.rule_delta.abs() <= 2 || c.kind < 2 && c.deltas.iter().any(|d| d.abs() <= 2);
    if near {
        st.nontrivial(&(c.kind, c.leaps, &c.deltas, c.rule_delta, c.std_off));
        st.class("clock_zone_switches_within_2s_of_now");
    }
    if lookup {
        let t0 = now_secs();
        let a = owned.find_current_local_time_type();
        let b = owned.as_ref().find_local_time_type(now_secs());
        let t1 = now_secs();
        for (name, got) in [("TimeZone::find_current_local_time_type", &a), ("TimeZone::as_ref().find_local_time_type(clock)", &b)] {
            if !(t0..=t1).any(|t| fwd_matches(&model, t, got)) {
                return Err(format!("{name} on zone {z:?} returned {got:?}, which is not the zone's answer for any instant of the clock bracket [{t0}, {t1}] (model at t0: {:?})", model.forward(t0)));
            }
        }
        st.class(if a.is_ok() { "current_type_ok" } else { "current_type_err" });
    }
    if values {
        let t0 = now_secs();
        let d = DateTime::now(zr);
        let u = UtcDateTime::now();
        let t1 = now_secs();
        match &d {
            Ok(dt) => {
                let t = dt.unix_time();
                if t < t0 || t > t1 || dt.nanoseconds() >= 1_000_000_000 {
                    return Err(format!("DateTime::now gave unix {t} ns {} outside the clock bracket [{t0}, {t1}]", dt.nanoseconds()));
                }
                check_dt(dt)?;
                if !fwd_matches(&model, t, &Ok(dt.local_time_type())) {
                    return Err(format!("DateTime::now on zone {z:?} gave {dt} (unix {t}) with a local time type that is not the zone's type at that instant ({:?})", model.forward(t)));
                }
            }
            Err(e) => {
                if !(t0..=t1).any(|t| matches!((model.forward(t), e), (Fwd::NoType, TzError::NoAvailableLocalTimeType) | (Fwd::Unspecified, _))) {
                    return Err(format!("DateTime::now on zone {z:?} failed with {e:?} although the zone has a type at every instant of [{t0}, {t1}]"));
                }
            }
        }
        let u = u.map_err(|e| format!("UtcDateTime::now failed: {e:?}"))?;
        let t = u.unix_time();
        let cv = cal::civil_from_unix(t as i128);
        if t < t0 || t > t1 || u.nanoseconds() >= 1_000_000_000 || (u.year() as i64, u.month() as i64, u.month_day() as i64, u.hour() as i64, u.minute() as i64, u.second() as i64) != (cv.y, cv.mo, cv.d, cv.h, cv.mi, cv.s) {
            return Err(format!("UtcDateTime::now gave {u} (unix {t}); clock bracket [{t0}, {t1}], calendar of that instant {cv:?}"));
        }
        st.class(if d.is_ok() { "now_ok" } else { "now_err" });
    }
    Ok(())
}

pub fn arb_clock_case() -> proptest::strategy::SBoxedStrategy<ClockCase> {
    use proptest::prelude::*;
    let delta = prop_oneof![4 => -3i64..=3, 2 => -100i64..=100, 1 => -100_000i64..=100_000, 1 => -2_000_000_000i64..2_000_000_000];
    (proptest::collection::vec(delta.clone(), 0..6), 0u8..4, any::<bool>(), delta, prop_oneof![Just(0i32), Just(3600), Just(-18000), -86399i32..86400], prop_oneof![Just(3600i32), Just(-3600), Just(1800), Just(0)])
        .prop_map(|(deltas, kind, leaps, rule_delta, std_off, save)| ClockCase { deltas, kind, leaps, rule_delta: rule_delta.clamp(-500_000, 500_000), std_off, save })
        .sboxed()
}
