//! Shared machinery for C05 / C06 / C14 / C17: the local-time search against the O-zone timeline model,
//! the round trip through the crate's own forward lookup, and the buffer-based search.
use crate::cal;
use crate::dtinv::check_dt;
use crate::gens::{self, Fields, ZoneCfg};
use crate::model::{MLtt, MTrailer, MZone};
use crate::orule::{self, Class};
use crate::ozone::{Fwd, TypeRef, ZoneModel};
use crate::run::*;
use proptest::prelude::*;
use serde::{Deserialize, Serialize};
use serde_json::json;
use tz::datetime::FoundDateTimeKind;
use tz::timezone::{TimeZone, TimeZoneRef};
use tz::{DateTime, TzError};

#[derive(Debug, Clone, Copy, PartialEq, Eq)]
pub enum Focus {
    C05,
    C06,
    C14,
    C17,
}

#[derive(Debug, Clone, Serialize, Deserialize, Hash)]
pub enum Query {
    /// local time derived from the model's event list: event `sel`, shown on the clock before (0) / after (1) the event, plus delta seconds
    AtEvent { sel: u32, side: u8, delta: i32 },
    /// New Year of base_year + dy, on the standard (0) / daylight (1) clock of the rule, plus delta
    NewYear { dy: i8, side: u8, delta: i32 },
    /// explicit civil fields
    Civil(Fields),
}

#[derive(Debug, Clone, Serialize, Deserialize, Hash)]
pub struct SearchCase {
    pub zone: MZone,
    pub base_year: i64,
    pub queries: Vec<Query>,
    /// turn the resolved second into 60 when it is 59 -> searched as hh:mm:60 (every n-th query), 0 = never
    pub sec60_every: u8,
}

#[derive(Debug, Clone, PartialEq)]
pub enum Entry {
    Normal { u: i64, t: TypeRef },
    Skipped { at: i64, before: TypeRef, after: TypeRef },
}

impl Entry {
    pub fn instant(&self) -> i64 {
        match self {
            Entry::Normal { u, .. } => *u,
            Entry::Skipped { at, .. } => *at,
        }
    }
}

/// Events of the zone timeline around `base_year`: (instant, type before, type after), ascending, with coincident instants merged
/// and no-ops (same type value before/after) kept (they are harmless: off_after > off_before fails).
pub struct Timeline {
    pub events: Vec<(i64, TypeRef, TypeRef)>,
    /// two table transitions take effect at the same UTC instant (one sits on an inserted leap second)
    pub coincident_table_events: bool,
    /// a rule year in the window has S(y) == E(y) (zero-length period)
    pub rule_tie_in_window: bool,
}

pub fn timeline(model: &ZoneModel, years: std::ops::RangeInclusive<i64>) -> Option<Timeline> {
    let z = model.z;
    let mut events: Vec<(i64, TypeRef, TypeRef)> = vec![];
    let mut coincident = false;
    let mut prev = TypeRef::Slot(0);
    let mut last_instant: Option<i64> = None;
    for (i, &(_, idx)) in z.trans.iter().enumerate() {
        let u = model.switch_instant(i)?;
        if last_instant == Some(u) {
            coincident = true;
        }
        let is_last = i + 1 == z.trans.len();
        if !(is_last && matches!(z.trailer, MTrailer::None)) {
            events.push((u, prev, TypeRef::Slot(idx)));
        }
        prev = TypeRef::Slot(idx);
        last_instant = Some(u);
    }
    let mut tie = false;
    if let MTrailer::Alt(r) = &z.trailer {
        let class = model.class.unwrap();
        if class == Class::Unstable || (class == Class::Overlap && overlap_listed_as_known()) {
            return None;
        }
        let mut cands: Vec<i64> = vec![];
        for y in years {
            let (s, e) = (r.s(y), r.e(y));
            if s == e {
                tie = true;
            }
            cands.push(s);
            cands.push(e);
        }
        cands.sort();
        cands.dedup();
        for t in cands {
            if let Some(l) = last_instant {
                if t <= l {
                    continue;
                }
            }
            let before = orule::is_dst(r, class, t - 1);
            let after = orule::is_dst(r, class, t);
            if before != after {
                let tr = |d: bool| if d { TypeRef::RuleDst } else { TypeRef::RuleStd };
                events.push((t, tr(before), tr(after)));
            }
        }
    }
    Some(Timeline { events, coincident_table_events: coincident, rule_tie_in_window: tie })
}

/// All distinct offsets occurring in the zone.
fn offsets(z: &MZone) -> Vec<i32> {
    let mut v: Vec<i32> = z.types.iter().map(|t| t.off).collect();
    match &z.trailer {
        MTrailer::Fixed(f) => v.push(f.off),
        MTrailer::Alt(r) => {
            v.push(r.std.off);
            v.push(r.dst.off);
        }
        MTrailer::None => {}
    }
    v.sort();
    v.dedup();
    v
}

/// Model answer for civil second count `l`: ordered list of entries, or None when some candidate's forward answer is unspecified / out of range.
pub fn model_find(model: &ZoneModel, tl: &Timeline, l: i128) -> Option<Vec<Entry>> {
    let z = model.z;
    let mut out: Vec<Entry> = vec![];
    for o in offsets(z) {
        let u = l - o as i128;
        if u < i64::MIN as i128 || u > i64::MAX as i128 {
            return None;
        }
        let u = u as i64;
        match model.forward(u) {
            Fwd::Type(t) => {
                if model.ltt(t).off == o {
                    out.push(Entry::Normal { u, t });
                }
            }
            Fwd::NoType => {}
            Fwd::OutOfRange | Fwd::Unspecified => return None,
        }
    }
    for &(t, b, a) in &tl.events {
        let (ob, oa) = (model.ltt(b).off as i128, model.ltt(a).off as i128);
        if oa > ob && t as i128 + ob <= l && l < t as i128 + oa {
            out.push(Entry::Skipped { at: t, before: b, after: a });
        }
    }
    out.sort_by_key(|e| e.instant());
    Some(out)
}

fn resolve(q: &Query, model: &ZoneModel, tl: &Timeline, base_year: i64) -> Option<i128> {
    match q {
        Query::Civil(f) => Some(f.civil_secs()),
        Query::AtEvent { sel, side, delta } => {
            if tl.events.is_empty() {
                return None;
            }
            let (t, b, a) = tl.events[idx(*sel, tl.events.len())];
            let off = model.ltt(if *side == 0 { b } else { a }).off;
            Some(t as i128 + off as i128 + *delta as i128)
        }
        Query::NewYear { dy, side, delta } => {
            let ny = cal::days_from_civil(base_year + *dy as i64, 1, 1) as i128 * 86400;
            let off = match &model.z.trailer {
                MTrailer::Alt(r) => {
                    if *side == 0 {
                        r.std.off
                    } else {
                        r.dst.off
                    }
                }
                _ => model.z.types[0].off,
            };
            // local New Year on that clock, and UTC New Year shown on that clock, alternate by delta parity
            Some(if delta % 2 == 0 { ny + *delta as i128 } else { ny + off as i128 + *delta as i128 })
        }
    }
}

fn fields_of(dt: &DateTime) -> (i32, u8, u8, u8, u8, u8, u32, i64, i32, bool, String) {
    (dt.year(), dt.month(), dt.month_day(), dt.hour(), dt.minute(), dt.second(), dt.nanoseconds(), dt.unix_time(), dt.local_time_type().ut_offset(), dt.local_time_type().is_dst(), dt.local_time_type().time_zone_designation().to_string())
}

fn kind_eq(a: &FoundDateTimeKind, b: &FoundDateTimeKind) -> bool {
    match (a, b) {
        (FoundDateTimeKind::Normal(x), FoundDateTimeKind::Normal(y)) => fields_of(x) == fields_of(y),
        (FoundDateTimeKind::Skipped { before_transition: b1, after_transition: a1 }, FoundDateTimeKind::Skipped { before_transition: b2, after_transition: a2 }) => fields_of(b1) == fields_of(b2) && fields_of(a1) == fields_of(a2),
        _ => false,
    }
}

fn show(v: &[FoundDateTimeKind]) -> String {
    v.iter()
        .map(|k| match k {
            FoundDateTimeKind::Normal(d) => format!("Normal(u={} {})", d.unix_time(), d),
            FoundDateTimeKind::Skipped { before_transition, after_transition } => format!("Skipped(at={} {} -> {})", before_transition.unix_time(), before_transition, after_transition),
        })
        .collect::<Vec<_>>()
        .join(", ")
}

pub struct Built {
    pub owned: TimeZone,
}

pub fn build(z: &MZone) -> Result<Built, String> {
    let owned = z.to_tz().map_err(|e| format!("valid-by-construction zone refused: {e:?} ({z:?})"))?;
    Ok(Built { owned })
}

/// One search checked under the given focus. `stale` = buffer contents left by a previous search (C17's 2-step history).
pub fn check_one(model: &ZoneModel, tl: &Timeline, zr: TimeZoneRef<'_>, f: &Fields, focus: Focus, stale: &mut Vec<Option<FoundDateTimeKind>>, st: &mut Stats) -> Result<(), String> {
    st.eval(1);
    let z = model.z;
    let l = f.civil_secs();
    if l > cal::max_unix() as i128 {
        // 23:59:60 of the last representable day denotes a civil second beyond the calendar: "converting back" is not definable
        st.exclude("23:59:60 on the last day of the calendar");
        let got = DateTime::find(f.y, f.mo, f.d, f.h, f.mi, f.s, f.ns, zr);
        if focus == Focus::C17 {
            // no model answer, but the two search variants must still agree (C17: same entries, same order; same refusal)
            let desc = || format!("zone {{trans: {:?}, types: {:?}, leaps: {:?}, trailer: {:?}}} local {:04}-{:02}-{:02}T{:02}:{:02}:{:02}", model.z.trans, model.z.types, model.z.leaps, model.z.trailer, f.y, f.mo, f.d, f.h, f.mi, f.s);
            match got {
                Ok(l) => {
                    st.class("last_second_of_calendar_found");
                    check_find_n(&l.into_inner(), f, zr, stale, st, &desc)?
                }
                Err(e) => {
                    for n in 0..3 {
                        let mut buf = vec![None; n];
                        match DateTime::find_n(&mut buf, f.y, f.mo, f.d, f.h, f.mi, f.s, f.ns, zr) {
                            Err(e2) if format!("{e2:?}") == format!("{e:?}") => {}
                            other => return Err(format!("{}: find failed with {e:?} but find_n(len {n}) gave {:?}", desc(), other.map(|l| l.count()))),
                        }
                    }
                }
            }
        }
        return Ok(());
    }
    let got = DateTime::find(f.y, f.mo, f.d, f.h, f.mi, f.s, f.ns, zr);
    // "far": the property's round trip is not definable (a candidate or a gap half may leave the supported range, or a DST rule cannot be
    // evaluated for the searched year): only the error kind is asserted there. Everywhere else the search must succeed and equal the model.
    let maxoff = offsets(z).iter().map(|o| (*o as i128).abs()).max().unwrap_or(0);
    let rule_year_out = matches!(z.trailer, MTrailer::Alt(_)) && !((i32::MIN as i64 + 2)..=(i32::MAX as i64 - 2)).contains(&(f.y as i64));
    let is_rule_zone = matches!(z.trailer, MTrailer::Alt(_));
    let near_end = l < cal::min_unix() as i128 + 2 * maxoff + 2 || l > cal::max_unix() as i128 - 2 * maxoff - 2;
    // zones without a DST rule are exact up to the very ends of the range: the search may fail only when an instant it has to return
    // (a valid result, or either half of a gap entry) is itself not representable (decided below from the model's answer)
    let far = (is_rule_zone && near_end) || rule_year_out;
    let exp = if far { None } else { model_find(model, tl, l) };
    // non-rule zone near a range end: is every instant of the model's answer representable?
    let exp = if !is_rule_zone && near_end {
        match exp {
            Some(e) => {
                let lo = cal::min_unix() as i128;
                let hi = cal::max_unix() as i128;
                let ok = e.iter().all(|x| match x {
                    Entry::Normal { u, .. } => (*u as i128) >= lo && (*u as i128) <= hi,
                    Entry::Skipped { at, before, after } => [model.ltt(*before).off, model.ltt(*after).off].iter().all(|o| {
                        let v = *at as i128 + *o as i128;
                        v >= lo && v <= hi
                    }),
                });
                if ok {
                    Some(e)
                } else {
                    None
                }
            }
            None => None,
        }
    } else {
        exp
    };
    let desc = || format!("zone {{trans: {:?}, types: {:?}, leaps: {:?}, trailer: {:?}}} local {:04}-{:02}-{:02}T{:02}:{:02}:{:02}", z.trans, z.types, z.leaps, z.trailer, f.y, f.mo, f.d, f.h, f.mi, f.s);
    let list: Vec<FoundDateTimeKind> = match got {
        Ok(l) => l.clone().into_inner(),
        Err(e) => {
            if exp.is_some() {
                return Err(format!("{}: search failed with {e:?} for valid fields far from the range limits", desc()));
            }
            if !matches!(e, TzError::OutOfRange) {
                return Err(format!("{}: search near the range limits failed with {e:?} (only OutOfRange is acceptable)", desc()));
            }
            st.class("search_error_near_limits");
            // C17: find_n must fail with the same error kind for every n
            if focus == Focus::C17 {
                for n in 0..3 {
                    let mut buf = vec![None; n];
                    match DateTime::find_n(&mut buf, f.y, f.mo, f.d, f.h, f.mi, f.s, f.ns, zr) {
                        Err(TzError::OutOfRange) => {}
                        other => return Err(format!("{}: find failed with OutOfRange but find_n(len {n}) gave {:?}", desc(), other.map(|l| l.count()))),
                    }
                }
            }
            return Ok(());
        }
    };
    // C14: invariant on every produced date-time
    for k in &list {
        match k {
            FoundDateTimeKind::Normal(d) => {
                check_dt(d).map_err(|m| format!("{}: {m}", desc()))?;
                if d.nanoseconds() != f.ns {
                    return Err(format!("{}: entry nanoseconds {} != searched {}", desc(), d.nanoseconds(), f.ns));
                }
                if focus == Focus::C14 {
                    // the entry is a date-time built from the searched fields and its local time type: the fields constructor
                    // must build the very same value (and refuses instants outside the supported range - so must the search)
                    match DateTime::new(f.y, f.mo, f.d, f.h, f.mi, f.s, f.ns, *d.local_time_type()) {
                        Ok(x) if fields_of(&x) == fields_of(d) => {}
                        other => return Err(format!("{}: the search returned {d} (unix {}), but DateTime::new with the same fields and local time type gives {:?}", desc(), d.unix_time(), other.map(|x| (x.to_string(), x.unix_time())))),
                    }
                }
            }
            FoundDateTimeKind::Skipped { before_transition, after_transition } => {
                check_dt(before_transition).map_err(|m| format!("{}: {m}", desc()))?;
                check_dt(after_transition).map_err(|m| format!("{}: {m}", desc()))?;
                if before_transition != after_transition {
                    return Err(format!("{}: the two halves of a gap entry are different instants", desc()));
                }
            }
        }
    }
    let exp = match exp {
        Some(e) => e,
        None => {
            st.exclude("model answer unspecified for this local time (range limits / leap extremes)");
            if focus == Focus::C17 {
                // the buffer-based search must still mirror the allocating one
                check_find_n(&list, f, zr, stale, st, &desc)?;
            }
            return Ok(());
        }
    };
    let n_norm = exp.iter().filter(|e| matches!(e, Entry::Normal { .. })).count();
    let n_skip = exp.len() - n_norm;
    // non-triviality
    let near_event = tl.events.iter().any(|&(t, b, a)| {
        let (ob, oa) = (model.ltt(b).off as i128, model.ltt(a).off as i128);
        let (lo, hi) = (t as i128 + ob.min(oa), t as i128 + ob.max(oa));
        l >= lo - 1 && l <= hi + 1
    });
    let nt = match focus {
        Focus::C05 | Focus::C14 => n_norm >= 2 || near_event,
        Focus::C06 => n_skip >= 1 || near_event,
        Focus::C17 => exp.len() >= 2 || near_event,
    };
    if nt {
        st.nontrivial(&(z, f));
    }
    st.class(match (n_norm, n_skip) {
        (0, 0) => "no_result",
        (1, 0) => "unique",
        (2, 0) => "ambiguous_2",
        (_, 0) => "ambiguous_3plus",
        (0, _) => "gap_only",
        _ => "gap_and_valid",
    });
    if f.s == 60 {
        st.class("second_60");
    }
    if focus == Focus::C05 || focus == Focus::C14 {
        // (i) timeline model: Normal entries as (instant, type) in order
        let got_n: Vec<(i64, &tz::LocalTimeType)> = list.iter().filter_map(|k| if let FoundDateTimeKind::Normal(d) = k { Some((d.unix_time(), d.local_time_type())) } else { None }).collect();
        let exp_n: Vec<(i64, &MLtt)> = exp.iter().filter_map(|e| if let Entry::Normal { u, t } = e { Some((*u, model.ltt(*t))) } else { None }).collect();
        let same = got_n.len() == exp_n.len() && got_n.iter().zip(&exp_n).all(|(g, e)| g.0 == e.0 && e.1.same_as(g.1));
        if !same {
            return Err(format!("{}: valid results {:?} differ from the instants at which the zone's clock shows that time {:?}; search returned [{}]", desc(), got_n.iter().map(|g| (g.0, g.1.ut_offset())).collect::<Vec<_>>(), exp_n.iter().map(|e| (e.0, e.1.off)).collect::<Vec<_>>(), show(&list)));
        }
        // (ii) round trip through the crate's own forward lookup
        for (u, ltt) in &got_n {
            let back = DateTime::from_timespec(*u, f.ns, zr).map_err(|e| format!("{}: result {u} does not convert back: {e:?}", desc()))?;
            let cv = (back.year(), back.month(), back.month_day(), back.hour(), back.minute(), back.second());
            let want = if f.s == 60 {
                let c = cal::civil_from_unix(l);
                (c.y as i32, c.mo as u8, c.d as u8, c.h as u8, c.mi as u8, c.s as u8)
            } else {
                (f.y, f.mo, f.d, f.h, f.mi, f.s)
            };
            if cv != want || back.local_time_type() != *ltt {
                return Err(format!("{}: result {u} converts back to {back}, not to the searched fields / returned type", desc()));
            }
        }
        for o in offsets(z) {
            let u = l - o as i128;
            if u < i64::MIN as i128 || u > i64::MAX as i128 {
                continue;
            }
            if let Ok(t) = zr.find_local_time_type(u as i64) {
                if t.ut_offset() == o {
                    let cnt = got_n.iter().filter(|g| g.0 == u as i64).count();
                    if cnt != 1 {
                        return Err(format!("{}: instant {u} shows the searched time (forward lookup gives offset {o}) but appears {cnt} times in the results [{}]", desc(), show(&list)));
                    }
                }
            }
        }
        // uniqueness
        let found = DateTime::find(f.y, f.mo, f.d, f.h, f.mi, f.s, f.ns, zr).unwrap();
        if n_skip == 0 && (found.unique().is_some() != (n_norm == 1)) {
            return Err(format!("{}: {n_norm} valid instant(s) but unique() is {:?}", desc(), found.unique().map(|d| d.unix_time())));
        }
        // the same claim through the buffer-based entry point, the way a caller uses it: ONE buffer kept across searches (here
        // still holding the previous search's entries, and longer than this result): the valid instants it reports are the same
        // set, and a local time that occurs once is reported as unique whatever the buffer held before (seeded change C05-r9m2)
        if focus == Focus::C05 {
            let n = list.len().max(stale.len()) + 1;
            let mut buf: Vec<Option<FoundDateTimeKind>> = (0..n).map(|i| stale.get(i).copied().flatten()).collect();
            let r = DateTime::find_n(&mut buf, f.y, f.mo, f.d, f.h, f.mi, f.s, f.ns, zr).map_err(|e| format!("{}: find succeeded, find_n failed: {e:?}", desc()))?;
            let via_n: Vec<i64> = r.data().iter().flatten().filter_map(|k| if let FoundDateTimeKind::Normal(d) = k { Some(d.unix_time()) } else { None }).collect();
            if via_n != got_n.iter().map(|g| g.0).collect::<Vec<_>>() {
                return Err(format!("{}: with a reused buffer the buffer-based search reports the valid instants {via_n:?}, the allocating search {:?}", desc(), got_n.iter().map(|g| g.0).collect::<Vec<_>>()));
            }
            if n_skip == 0 && (r.unique().map(|d| d.unix_time()) != found.unique().map(|d| d.unix_time())) {
                return Err(format!("{}: {n_norm} valid instant(s); with a buffer reused from the previous search unique() is {:?}, with the allocating search {:?}", desc(), r.unique().map(|d| d.unix_time()), found.unique().map(|d| d.unix_time())));
            }
            *stale = list.iter().map(|k| Some(*k)).collect();
        }
    }
    if focus == Focus::C06 {
        // exact list of gap entries, strict ascending order of the whole list, earliest/latest/unique
        if list.len() != exp.len() {
            return Err(format!("{}: expected entries {exp:?}, search returned [{}]", desc(), show(&list)));
        }
        for (g, e) in list.iter().zip(&exp) {
            match (g, e) {
                (FoundDateTimeKind::Normal(d), Entry::Normal { u, .. }) if d.unix_time() == *u => {}
                (FoundDateTimeKind::Skipped { before_transition, after_transition }, Entry::Skipped { at, before, after }) => {
                    let ok = before_transition.unix_time() == *at && after_transition.unix_time() == *at && model.ltt(*before).same_as(before_transition.local_time_type()) && model.ltt(*after).same_as(after_transition.local_time_type());
                    // the halves are the transition instant on the clock before / after the jump
                    let cb = cal::civil_from_unix(*at as i128 + model.ltt(*before).off as i128);
                    let ca = cal::civil_from_unix(*at as i128 + model.ltt(*after).off as i128);
                    let fb = (before_transition.year() as i64, before_transition.month() as i64, before_transition.month_day() as i64, before_transition.hour() as i64, before_transition.minute() as i64, before_transition.second() as i64);
                    let fa = (after_transition.year() as i64, after_transition.month() as i64, after_transition.month_day() as i64, after_transition.hour() as i64, after_transition.minute() as i64, after_transition.second() as i64);
                    if !ok || fb != (cb.y, cb.mo, cb.d, cb.h, cb.mi, cb.s) || fa != (ca.y, ca.mo, ca.d, ca.h, ca.mi, ca.s) {
                        return Err(format!("{}: gap entry {g:?} does not describe the jump {e:?}", desc()));
                    }
                }
                _ => return Err(format!("{}: expected entries {exp:?}, search returned [{}]", desc(), show(&list))),
            }
        }
        let inst: Vec<i64> = list.iter().map(|k| match k { FoundDateTimeKind::Normal(d) => d.unix_time(), FoundDateTimeKind::Skipped { before_transition, .. } => before_transition.unix_time() }).collect();
        if inst.windows(2).any(|w| w[0] >= w[1]) {
            return Err(format!("{}: results are not in strictly ascending order of instant: {inst:?}", desc()));
        }
        let found = DateTime::find(f.y, f.mo, f.d, f.h, f.mi, f.s, f.ns, zr).unwrap();
        let e = found.earliest().map(|d| fields_of(&d));
        let la = found.latest().map(|d| fields_of(&d));
        let first = list.first().map(|k| match k { FoundDateTimeKind::Normal(d) => fields_of(d), FoundDateTimeKind::Skipped { before_transition, .. } => fields_of(before_transition) });
        let last = list.last().map(|k| match k { FoundDateTimeKind::Normal(d) => fields_of(d), FoundDateTimeKind::Skipped { after_transition, .. } => fields_of(after_transition) });
        if e != first || la != last {
            return Err(format!("{}: earliest()/latest() are not the first/last entries", desc()));
        }
        if let (Some(e), Some(la)) = (&e, &la) {
            if inst.iter().any(|&i| i < e.7 || i > la.7) {
                return Err(format!("{}: earliest/latest do not bound every entry", desc()));
            }
        }
        // the same three accessors on the buffer-based list (buffer one longer than the result, pre-filled with the previous search's entries)
        {
            let k = list.len();
            let mut buf: Vec<Option<FoundDateTimeKind>> = (0..k + 1).map(|i| if stale.is_empty() { None } else { stale[i % stale.len()] }).collect();
            let r = DateTime::find_n(&mut buf, f.y, f.mo, f.d, f.h, f.mi, f.s, f.ns, zr).map_err(|e| format!("{}: find succeeded, find_n failed: {e:?}", desc()))?;
            let fo = |d: Option<DateTime>| d.map(|d| fields_of(&d));
            if fo(r.earliest()) != first || fo(r.latest()) != last || r.unique().is_some() != matches!(list.as_slice(), [FoundDateTimeKind::Normal(_)]) {
                return Err(format!("{}: earliest/latest/unique of the buffer-based list ({:?}/{:?}/{:?}) are not the first / last / single entry of [{}]", desc(), fo(r.earliest()).map(|x| x.7), fo(r.latest()).map(|x| x.7), r.unique().map(|d| d.unix_time()), show(&list)));
            }
            *stale = list.iter().map(|k| Some(*k)).collect();
        }
        let uniq = found.unique();
        let should = matches!(list.as_slice(), [FoundDateTimeKind::Normal(_)]);
        if uniq.is_some() != should || (should && fields_of(&uniq.unwrap()) != first.clone().unwrap()) {
            return Err(format!("{}: unique() = {:?} for results [{}]", desc(), uniq.map(|d| d.unix_time()), show(&list)));
        }
    }
    if focus == Focus::C17 {
        check_find_n(&list, f, zr, stale, st, &desc)?;
        // "returns the same error when the allocating search fails": the searched fields with ONE field made invalid (hour 24,
        // minute 60 / 255, second 61, month 0 / 13, day 0 / 32, a day the month does not have, nanoseconds 1e9) through both entry
        // points and three buffer lengths — both must refuse, alike (operator sweep 3: `check_date_time_inputs(.., hour, hour, ..)`)
        if f.ns % 8 == 0 {
            let bad: [(u8, u8, u8, u8, u8, u32); 12] = [(0, f.d, f.h, f.mi, f.s, f.ns), (13, f.d, f.h, f.mi, f.s, f.ns), (f.mo, 0, f.h, f.mi, f.s, f.ns), (f.mo, 32, f.h, f.mi, f.s, f.ns), (2, 30, f.h, f.mi, f.s, f.ns), (f.mo, f.d, 24, f.mi, f.s, f.ns), (f.mo, f.d, f.h, 60, f.s, f.ns), (f.mo, f.d, f.h, 255, f.s, f.ns), (f.mo, f.d, f.h, f.mi, 61, f.ns), (f.mo, f.d, f.h, f.mi, 255, f.ns), (f.mo, f.d, f.h, f.mi, f.s, 1_000_000_000), (f.mo, f.d, 23u8.min(f.h), f.mi.max(60), f.s, f.ns)];
            for (mo, d, h, mi, s, ns) in bad {
                st.eval(1);
                let a = DateTime::find(f.y, mo, d, h, mi, s, ns, zr).map(|l| l.into_inner().len());
                for n in [0usize, 1, 3] {
                    let mut buf: Vec<Option<FoundDateTimeKind>> = vec![None; n];
                    let b = DateTime::find_n(&mut buf, f.y, mo, d, h, mi, s, ns, zr).map(|l| l.count());
                    let same = match (&a, &b) {
                        (Err(x), Err(y)) => format!("{x:?}") == format!("{y:?}") && matches!(x, tz::TzError::DateTime(_)),
                        _ => false,
                    };
                    if !same {
                        return Err(format!("{}: with the invalid fields ({}, {mo}, {d}, {h}, {mi}, {s}, {ns}) the allocating search gives {a:?} and find_n(len {n}) gives {b:?}; both must refuse with the same date-time error", desc(), f.y));
                    }
                }
                st.class("invalid_fields_refused_alike");
            }
        }
    }
    if st.wants_sample("search") && nt {
        st.sample("search", || json!({"transitions": z.trans.len(), "trailer": format!("{:?}", z.trailer).chars().take(60).collect::<String>(), "leaps": z.leaps.len(), "local": f, "expected": format!("{exp:?}")}));
    }
    Ok(())
}


/// C17: the buffer-based search against the allocating one, for every buffer length 0..=k+2, with stale pre-fill.
#[allow(clippy::too_many_arguments)]
fn check_find_n(list: &[FoundDateTimeKind], f: &Fields, zr: TimeZoneRef<'_>, stale: &mut Vec<Option<FoundDateTimeKind>>, st: &mut Stats, desc: &dyn Fn() -> String) -> Result<(), String> {
    let k = list.len();
    let found = DateTime::find(f.y, f.mo, f.d, f.h, f.mi, f.s, f.ns, zr).unwrap();
    for n in 0..=k + 2 {
        st.eval(1);
        // buffer pre-filled with the stale entries of the previous search (cycled), or - every third length - with entries that
        // denote the SAME instants as the coming results but in another local time type (a stale slot that compares equal by instant)
        let mut buf: Vec<Option<FoundDateTimeKind>> = (0..n).map(|i| if stale.is_empty() { None } else { stale[i % stale.len()] }).collect();
        if n % 3 == 2 {
            let other = tz::LocalTimeType::new(-9_999, true, Some(b"STALE")).unwrap();
            for (i, slot) in buf.iter_mut().enumerate() {
                if let Some(k) = list.get(i) {
                    let u = match k {
                        FoundDateTimeKind::Normal(d) => d.unix_time(),
                        FoundDateTimeKind::Skipped { before_transition, .. } => before_transition.unix_time(),
                    };
                    if let Ok(d) = DateTime::from_timespec_and_local(u, f.ns, other) {
                        *slot = Some(match k {
                            FoundDateTimeKind::Normal(_) => FoundDateTimeKind::Normal(d),
                            FoundDateTimeKind::Skipped { .. } => FoundDateTimeKind::Skipped { before_transition: d, after_transition: d },
                        });
                    }
                }
            }
        }
        let pre = buf.clone();
        let (data, count, exh, uq, ea, la) = {
            let r = DateTime::find_n(&mut buf, f.y, f.mo, f.d, f.h, f.mi, f.s, f.ns, zr).map_err(|e| format!("{}: find succeeded but find_n(len {n}) failed: {e:?}", desc()))?;
            (r.data().to_vec(), r.count(), r.is_exhaustive(), r.unique(), r.earliest(), r.latest())
        };
        let m = n.min(k);
        if count != k {
            return Err(format!("{}: find_n(len {n}).count() = {count}, the allocating search returns {k}", desc()));
        }
        if exh != (n >= k) {
            return Err(format!("{}: find_n(len {n}).is_exhaustive() = {exh} with {k} results", desc()));
        }
        if data.len() != m {
            return Err(format!("{}: find_n(len {n}).data() has {} entries, expected min(n,k) = {m}", desc(), data.len()));
        }
        for i in 0..m {
            match &data[i] {
                Some(x) if kind_eq(x, &list[i]) => {}
                other => return Err(format!("{}: find_n(len {n}).data()[{i}] = {other:?}, allocating search has {:?}", desc(), list[i])),
            }
        }
        for i in m..n {
            let same = match (&buf[i], &pre[i]) {
                (None, None) => true,
                (Some(a), Some(b)) => kind_eq(a, b),
                _ => false,
            };
            if !same {
                return Err(format!("{}: find_n(len {n}) touched slot {i} beyond the {m} it reports", desc()));
            }
        }
        if n >= k {
            let fo = |d: Option<DateTime>| d.map(|d| fields_of(&d));
            if fo(uq) != fo(found.unique()) || fo(ea) != fo(found.earliest()) || fo(la) != fo(found.latest()) {
                return Err(format!("{}: exhaustive find_n(len {n}) unique/earliest/latest = {:?}/{:?}/{:?} differ from the allocating search's {:?}/{:?}/{:?} (stale prefill: {})", desc(), fo(uq).map(|x| x.7), fo(ea).map(|x| x.7), fo(la).map(|x| x.7), fo(found.unique()).map(|x| x.7), fo(found.earliest()).map(|x| x.7), fo(found.latest()).map(|x| x.7), !stale.is_empty()));
            }
        }
        if n < k {
            st.class("buffer_shorter_than_result");
        }
        if stale.len() > k && n > k {
            st.class("stale_prefill_longer_than_result");
        }
    }
    // this search's results become the next search's stale prefill
    *stale = list.iter().map(|k| Some(*k)).collect();
    if stale.is_empty() {
        // keep something stale around
        if let Ok(d) = DateTime::from_timespec_and_local(0, 0, tz::LocalTimeType::utc()) {
            stale.push(Some(FoundDateTimeKind::Normal(d)));
            stale.push(Some(FoundDateTimeKind::Skipped { before_transition: d, after_transition: d }));
        }
    }
    Ok(())
}

pub const KF_OVERLAP: &str = "KF-C05-OVERLAP";
pub const KF_TIE_GAP: &str = "KF-C06-TIEGAP";

pub fn check_search(c: &SearchCase, focus: Focus, st: &mut Stats) -> Result<(), String> {
    let z = &c.zone;
    let model = ZoneModel::new(z);
    let mut model_free = false;
    if let Some(cl) = model.class {
        st.class(&format!("rule_{}", cl.name()));
        if cl == Class::Overlap && overlap_listed_as_known() {
            if focus == Focus::C17 || focus == Focus::C14 {
                // the buffer-based search must mirror the allocating one (C17), and every produced value must be coherent (C14),
                // whatever the zone: these two need no model, so the overlapping-rule zones are not excluded for them
                model_free = true;
            } else {
                st.exclude(KF_OVERLAP);
                return Ok(());
            }
        }
    }
    let built = build(z)?;
    let zr = built.owned.as_ref();
    if model_free {
        let mut stale: Vec<Option<FoundDateTimeKind>> = vec![];
        let r = match &z.trailer {
            MTrailer::Alt(r) => r,
            _ => return Ok(()),
        };
        // also the same rule behind a one-transition table (accepted only when the rule prescribes that type there)
        let with_table = {
            let t0 = r.s(c.base_year) - 20 * 86400;
            let mut z2 = z.clone();
            let at = z2.types.iter().position(|t| *t == r.dst).unwrap_or(0);
            z2.trans = vec![(t0, at)];
            z2.to_tz().ok().or_else(|| {
                let at = z2.types.iter().position(|t| *t == r.std).unwrap_or(0);
                z2.trans = vec![(t0, at)];
                z2.to_tz().ok()
            })
        };
        let zones: Vec<TimeZoneRef<'_>> = std::iter::once(zr).chain(with_table.as_ref().map(|t| t.as_ref())).collect();
        for zr in zones {
        for (qi, q) in c.queries.iter().enumerate() {
            // local times around the rule's own instants of the base year and around New Year
            let l: i128 = match q {
                Query::Civil(f) => f.civil_secs(),
                Query::AtEvent { sel, side, delta } => {
                    let y = c.base_year + (*sel % 3) as i64 - 1;
                    let t = if sel % 2 == 0 { r.s(y) } else { r.e(y) };
                    t as i128 + if *side == 0 { r.std.off } else { r.dst.off } as i128 + *delta as i128
                }
                Query::NewYear { dy, side, delta } => cal::days_from_civil(c.base_year + *dy as i64, 1, 1) as i128 * 86400 + if *side == 0 { r.std.off } else { r.dst.off } as i128 + *delta as i128,
            };
            if l < cal::min_unix() as i128 + 400_000 || l > cal::max_unix() as i128 - 400_000 {
                continue;
            }
            let f = match Fields::from_civil(&cal::civil_from_unix(l), qi as u32) {
                Some(f) => f,
                None => continue,
            };
            st.eval(1);
            let desc = || format!("zone {z:?} (overlapping rule) local {f:?}");
            let list = match DateTime::find(f.y, f.mo, f.d, f.h, f.mi, f.s, f.ns, zr) {
                Ok(l) => l.into_inner(),
                Err(_) => continue,
            };
            for k in &list {
                match k {
                    FoundDateTimeKind::Normal(d) => check_dt(d).map_err(|m| format!("{}: {m}", desc()))?,
                    FoundDateTimeKind::Skipped { before_transition, after_transition } => {
                        check_dt(before_transition).map_err(|m| format!("{}: {m}", desc()))?;
                        check_dt(after_transition).map_err(|m| format!("{}: {m}", desc()))?;
                    }
                }
            }
            if focus == Focus::C17 {
                check_find_n(&list, &f, zr, &mut stale, st, &desc)?;
                st.class("overlapping_rule_zone_buffer_vs_allocating");
            }
        }
        }
        return Ok(());
    }
    let tl = match timeline(&model, c.base_year - 3..=c.base_year + 3) {
        Some(t) => t,
        None => {
            st.exclude("switch instant of a transition outside i64");
            return Ok(());
        }
    };
    if tl.coincident_table_events {
        st.exclude("two table transitions take effect at the same UTC instant (one sits on an inserted leap second)");
        return Ok(());
    }
    let mut stale: Vec<Option<FoundDateTimeKind>> = vec![];
    for (qi, q) in c.queries.iter().enumerate() {
        let l = match resolve(q, &model, &tl, c.base_year) {
            Some(l) => l,
            None => continue,
        };
        if let (Query::Civil(ff), true) = (q, l == cal::max_unix() as i128 + 1) {
            // 23:59:60 on the last day of the calendar: valid fields; check_one decides what can be asserted there
            check_one(&model, &tl, zr, ff, focus, &mut stale, st)?;
            continue;
        }
        if l < cal::min_unix() as i128 || l > cal::max_unix() as i128 {
            st.exclude("derived local time outside the calendar range");
            continue;
        }
        let cv = cal::civil_from_unix(l);
        let mut f = match Fields::from_civil(&cv, (qi as u32).wrapping_mul(7_777_777) % 1_000_000_000) {
            Some(f) => f,
            None => continue,
        };
        if let Query::Civil(ff) = q {
            f = *ff;
        } else if c.sec60_every > 0 && qi % c.sec60_every as usize == 0 && f.s == 59 {
            // hh:mm:59 + 1 searched as hh:mm:60
            f.s = 60;
        }
        // the rule window of the timeline must cover the searched year
        if matches!(z.trailer, MTrailer::Alt(_)) && (f.y as i64 - c.base_year).abs() > 1 {
            let tl2 = match timeline(&model, f.y as i64 - 3..=f.y as i64 + 3) {
                Some(t) => t,
                None => continue,
            };
            if tl2.rule_tie_in_window && known_tie_gap_excluded() {
                st.exclude(KF_TIE_GAP);
                continue;
            }
            check_one(&model, &tl2, zr, &f, focus, &mut stale, st)?;
        } else {
            if tl.rule_tie_in_window && known_tie_gap_excluded() {
                st.exclude(KF_TIE_GAP);
                continue;
            }
            check_one(&model, &tl, zr, &f, focus, &mut stale, st)?;
        }
    }
    Ok(())
}

/// Is the overlapping-rule finding listed as known (then such zones are excluded from the model-based search checks and counted)?
pub fn overlap_listed_as_known() -> bool {
    use std::sync::OnceLock;
    static V: OnceLock<bool> = OnceLock::new();
    *V.get_or_init(|| {
        let k = crate::known::load();
        k.has_signature("C05", KF_OVERLAP) || k.has_signature("C06", KF_OVERLAP)
    })
}

/// Is the zero-length-period finding listed as known (then tie years are excluded by construction and counted)?
pub fn known_tie_gap_excluded() -> bool {
    use std::sync::OnceLock;
    static V: OnceLock<bool> = OnceLock::new();
    *V.get_or_init(|| {
        let k = crate::known::load();
        k.has_signature("C05", KF_TIE_GAP) || k.has_signature("C06", KF_TIE_GAP)
    })
}

pub fn arb_query() -> SBoxedStrategy<Query> {
    let delta = prop_oneof![4 => -2i32..=2, 2 => proptest::sample::select(vec![-3600i32, 3600, -1800, 1800, -7200, 7200, 59, 60, -60, -61]), 2 => -90000i32..90000];
    prop_oneof![
        8 => (any::<u32>(), 0u8..2, delta.clone()).prop_map(|(sel, side, delta)| Query::AtEvent { sel, side, delta }),
        2 => (-1i8..=1, 0u8..2, prop_oneof![-2i32..=2, proptest::sample::select(vec![-7200i32, 7200, -7201, 7201])]).prop_map(|(dy, side, delta)| Query::NewYear { dy, side, delta }),
        1 => gens::arb_valid_fields().prop_map(Query::Civil),
    ]
    .sboxed()
}

pub fn arb_search_case(max_trans: usize, n_queries: usize) -> SBoxedStrategy<SearchCase> {
    (
        prop_oneof![5 => gens::arb_zone(ZoneCfg { max_trans, leaps: true, wide_times: false }), 1 => gens::arb_zone(ZoneCfg { max_trans, leaps: true, wide_times: true }), 3 => gens::arb_aligned_zone(), 2 => gens::arb_leap_adjacent_zone(), 1 => gens::arb_range_edge_zone(), 1 => gens::arb_many_types_zone()],
        prop_oneof![6 => 1900i64..2100, 2 => -3000i64..4000, 1 => (i32::MIN as i64 + 300)..(i32::MAX as i64 - 300), 1 => proptest::sample::select(vec![i32::MIN as i64 + 1, i32::MIN as i64 + 2, i32::MIN as i64 + 3, i32::MIN as i64 + 4, i32::MAX as i64 - 4, i32::MAX as i64 - 3, i32::MAX as i64 - 2, i32::MAX as i64 - 1])],
        proptest::collection::vec(arb_query(), 1..=n_queries),
        prop_oneof![2 => Just(0u8), 1 => 1u8..4],
    )
        .prop_map(|(zone, base_year, queries, sec60_every)| {
            // for rule zones with a table, look around the end of the table (the table/rule junction) half of the time
            let base_year = match (&zone.trailer, zone.trans.last()) {
                (MTrailer::Alt(_), Some(&(t, _))) if base_year % 2 == 0 && t > cal::min_unix() && t < cal::max_unix() => cal::civil_from_unix(t as i128).y,
                _ => base_year,
            };
            SearchCase { zone, base_year, queries, sec60_every }
        })
        .sboxed()
}

/// Dense zones: transition spacing smaller than the offset jumps so that 3+ candidates overlap and gaps/folds interleave.
pub fn arb_dense_case() -> SBoxedStrategy<SearchCase> {
    (prop_oneof![3 => proptest::collection::vec((1i64..5000, -14400i32..14400, any::<bool>()), 2..12), 1 => proptest::collection::vec((1i64..600, -14400i32..14400, any::<bool>()), 9..40)], -2_000_000_000i64..2_000_000_000, proptest::collection::vec(arb_query(), 1..40), any::<bool>())
        .prop_map(|(steps, t0, queries, fixed)| {
            let mut types = vec![MLtt::new(0, false, Some("LMT"))];
            let mut trans = vec![];
            let mut t = t0;
            for (k, (gap, off, dst)) in steps.iter().enumerate() {
                t += gap;
                types.push(MLtt { off: *off, dst: *dst, name: Some(format!("T{k:02}")) });
                trans.push((t, types.len() - 1));
            }
            let trailer = if fixed { MTrailer::Fixed(types.last().unwrap().clone()) } else { MTrailer::None };
            let by = cal::civil_from_unix(t0 as i128).y;
            SearchCase { zone: MZone { trans, types, leaps: vec![], trailer }, base_year: by, queries, sec60_every: 3 }
        })
        .sboxed()
}

// ---------------------------------------------------------------------------------------------
// shared run for C05 / C06 / C17

use crate::model::{MDay, MRule};

pub fn regression_cases() -> Vec<SearchCase> {
    let mut v = vec![];
    // repaired F1: end-first rule with tie years, searched around New Year of tie and non-tie years
    let f1 = MRule { std: MLtt::new(0, false, Some("AAA")), dst: MLtt::new(0, true, Some("BBB")), start: MDay::M(3, 5, 2), start_time: 0, end: MDay::M(3, 5, 3), end_time: -86400 };
    let mut q = vec![];
    for dy in -1..=1 {
        for delta in [-2, -1, 0, 1, 2] {
            q.push(Query::NewYear { dy, side: 0, delta });
        }
    }
    for sel in 0..12u32 {
        for delta in [-1, 0, 1] {
            q.push(Query::AtEvent { sel: sel.wrapping_mul(400_000_000), side: (sel % 2) as u8, delta });
        }
    }
    for by in [2020, 2021, 2023, 2026] {
        v.push(SearchCase { zone: MZone { trans: vec![], types: vec![f1.std.clone(), f1.dst.clone()], leaps: vec![], trailer: MTrailer::Alt(f1.clone()) }, base_year: by, queries: q.clone(), sec60_every: 0 });
    }
    // CET/CEST with table + rule junction on the rule's own transition instant (usual zic layout)
    let cet = MLtt::new(3600, false, Some("CET"));
    let cest = MLtt::new(7200, true, Some("CEST"));
    let eu = MRule { std: cet.clone(), dst: cest.clone(), start: MDay::M(3, 5, 0), start_time: 7200, end: MDay::M(10, 5, 0), end_time: 10800 };
    v.push(SearchCase {
        zone: MZone { trans: vec![(eu.s(1999), 1), (eu.e(1999), 0), (eu.s(2000), 1)], types: vec![cet.clone(), cest.clone()], leaps: vec![], trailer: MTrailer::Alt(eu.clone()) },
        base_year: 2000,
        queries: q.clone(),
        sec60_every: 2,
    });
    // same with the real leap table (right/ style)
    let lp = crate::oleap::real_table();
    let tr = |u: i64| (crate::oleap::f(&lp, u) as i64);
    v.push(SearchCase {
        zone: MZone { trans: vec![(tr(eu.s(1999)), 1), (tr(eu.e(1999)), 0), (tr(eu.s(2000)), 1)], types: vec![cet, cest], leaps: lp.clone(), trailer: MTrailer::Alt(eu) },
        base_year: 2000,
        queries: q,
        sec60_every: 2,
    });
    // all-year DST (this year's end coincides with next year's start) behind a table whose last transition is that very instant
    {
        let est = MLtt::new(-18_000, false, Some("EST"));
        let edt = MLtt::new(-14_400, true, Some("EDT"));
        let all = MRule { std: est.clone(), dst: edt.clone(), start: MDay::J0(0), start_time: 0, end: MDay::J1(365), end_time: 25 * 3600 };
        let mut qq = vec![];
        for sel in 0..16u32 {
            for side in 0..2u8 {
                for delta in [-1, 0, 1, 1800, 3599, 3600] {
                    qq.push(Query::AtEvent { sel: sel * (u32::MAX / 16) + 7, side, delta });
                }
            }
        }
        for y in [2000i64, 2001] {
            let t = all.s(y);
            for delta in [-1i64, 0, 1, 1800, 3599, 3600, 3601] {
                for off in [est.off, edt.off] {
                    if let Some(f) = Fields::from_civil(&cal::civil_from_unix((t + off as i64 + delta) as i128), 0) {
                        qq.push(Query::Civil(f));
                    }
                }
            }
            v.push(SearchCase { zone: MZone { trans: vec![(t, 1)], types: vec![est.clone(), edt.clone()], leaps: vec![], trailer: MTrailer::Alt(all.clone()) }, base_year: y, queries: qq.clone(), sec60_every: 0 });
            v.push(SearchCase { zone: MZone { trans: vec![(t - 86_400 * 200, 1), (t, 1)], types: vec![est.clone(), edt.clone()], leaps: vec![], trailer: MTrailer::Alt(all.clone()) }, base_year: y, queries: qq.clone(), sec60_every: 0 });
        }
    }
    // many results for one local time (seeded change C05-r13bm2: the allocating search run through a fixed stack buffer of 8 entries):
    // a "staircase" table that sets the clock back by D every D seconds (one local time occurs K + 1 times), and a "sawtooth" that
    // alternates between two offsets an hour apart every 100 s (a dozen overlapping gaps and folds) — with and without a fixed trailer
    for (k_steps, d) in [(3usize, 1000i64), (7, 1000), (8, 1000), (9, 1000), (12, 3600), (40, 1000)] {
        let t0 = 1_000_000_000i64;
        let types: Vec<MLtt> = (0..=k_steps).map(|k| MLtt::new(-(k as i32) * d as i32, k % 2 == 1, Some(&format!("S{k:02}")))).collect();
        let trans: Vec<(i64, usize)> = (1..=k_steps).map(|k| (t0 + k as i64 * d, k)).collect();
        let mut qs = vec![];
        for x in [-1i64, 0, 1, d / 2, d - 1, d, d + 1, 2 * d] {
            if let Some(f) = Fields::from_civil(&cal::civil_from_unix((t0 + x) as i128), 7) {
                qs.push(Query::Civil(f));
            }
        }
        for trailer in [MTrailer::None, MTrailer::Fixed(types[k_steps].clone())] {
            v.push(SearchCase { zone: MZone { trans: trans.clone(), types: types.clone(), leaps: vec![], trailer }, base_year: 2001, queries: qs.clone(), sec60_every: 0 });
        }
    }
    {
        let t0 = 1_000_000_000i64;
        let lo = MLtt::new(0, false, Some("LOW"));
        let hi = MLtt::new(3600, true, Some("HIGH"));
        let trans: Vec<(i64, usize)> = (1..=24usize).map(|k| (t0 + k as i64 * 100, k % 2)).collect();
        let mut qs = vec![];
        for x in [0i64, 99, 100, 101, 1199, 1200, 1250, 2400, 2500, 3599, 3600, 3700, 3601 + 2400, 6100] {
            if let Some(f) = Fields::from_civil(&cal::civil_from_unix((t0 + x) as i128), 0) {
                qs.push(Query::Civil(f));
            }
        }
        for trailer in [MTrailer::None, MTrailer::Fixed(lo.clone())] {
            v.push(SearchCase { zone: MZone { trans: trans.clone(), types: vec![lo.clone(), hi.clone()], leaps: vec![], trailer }, base_year: 2001, queries: qs.clone(), sec60_every: 0 });
        }
    }
    // both ends of the calendar (first / last seconds, incl. 23:59:60 of the last day) in fixed, table-only and DST-rule zones of either sign
    let mut edge = vec![];
    for (y, mo, d) in [(i32::MAX, 12u8, 31u8), (i32::MAX, 12, 30), (i32::MIN, 1, 1), (i32::MIN, 1, 2)] {
        for (h, mi, s) in [(23u8, 59u8, 60u8), (23, 59, 59), (23, 0, 0), (22, 59, 59), (0, 0, 0), (0, 0, 1), (0, 59, 60), (1, 0, 0), (12, 0, 0)] {
            edge.push(Query::Civil(Fields { y, mo, d, h, mi, s, ns: 5 }));
        }
    }
    for off in [0, 1, -1, 3600, -3600, 50_400, -43_200] {
        let a = MLtt::new(off, false, Some("AAA"));
        let b = MLtt::new(off + 3600, true, Some("BBB"));
        let r = MRule { std: a.clone(), dst: b.clone(), start: MDay::M(3, 2, 0), start_time: 7200, end: MDay::M(11, 1, 0), end_time: 7200 };
        for (trans, trailer) in [(vec![], MTrailer::None), (vec![], MTrailer::Fixed(a.clone())), (vec![(0i64, 1usize), (86_400, 0)], MTrailer::None), (vec![(0, 1), (86_400, 0)], MTrailer::Fixed(a.clone())), (vec![], MTrailer::Alt(r.clone()))] {
            v.push(SearchCase { zone: MZone { trans, types: vec![a.clone(), b.clone()], leaps: vec![], trailer }, base_year: 2000, queries: edge.clone(), sec60_every: 0 });
        }
    }
    v
}

/// Probe of the recorded finding F3: an accepted rule whose DST period is longer than a year makes the search list one instant twice.
pub fn probe_overlap_finding() -> Option<String> {
    let r = MRule { std: MLtt::new(0, false, Some("AAA")), dst: MLtt::new(7200, true, Some("BBB")), start: MDay::J1(3), start_time: -72 * 3600, end: MDay::J1(364), end_time: 120 * 3600 };
    let z = MZone { trans: vec![], types: vec![r.std.clone(), r.dst.clone()], leaps: vec![], trailer: MTrailer::Alt(r) };
    let tzv = z.to_tz().ok()?;
    let found = DateTime::find(2021, 1, 2, 0, 0, 0, 0, tzv.as_ref()).ok()?;
    let inst: Vec<i64> = found.clone().into_inner().iter().filter_map(|k| if let FoundDateTimeKind::Normal(d) = k { Some(d.unix_time()) } else { None }).collect();
    let mut d = inst.clone();
    d.dedup();
    if d.len() != inst.len() || (inst.len() == 1) != found.unique().is_some() {
        Some(format!("{KF_OVERLAP}: footer AAA0BBB-2,J3/-72,J364/120 (DST period longer than a year): DateTime::find(2021-01-02T00:00:00) lists instants {inst:?} - the same instant twice, so unique() is None for a local time that occurs once"))
    } else {
        None
    }
}

pub fn run_search(ctx: &Ctx, focus: Focus, rule_text: &str) -> Outcome {
    let mut out = Outcome::new(rule_text);
    out.assumptions = vec![
        "zones are valid by construction (last transition's type = what the trailer prescribes at its switch instant, by O-leap + O-rule)".into(),
        "local times within twice the zone's largest |offset| of either end of the supported range, or (DST-rule zones) in years outside i32::MIN+2..=i32::MAX-2: only 'no panic, error is OutOfRange' is asserted".into(),
        "zones whose rule is 'overlapping' are excluded by construction and counted only while known_findings.json lists KF-C05-OVERLAP (it does not since the F3 repair)".into(),
    ];
    let known = crate::known::load();
    let id = ctx.id.as_str();
    if known.has_signature(id, KF_OVERLAP) || known.has_signature("C05", KF_OVERLAP) {
        if let Some(line) = probe_overlap_finding() {
            if known.has_signature(id, KF_OVERLAP) {
                out.known_hits.push(line);
            }
        }
    }
    let kind = match focus {
        Focus::C05 => "search",
        Focus::C06 => "search",
        Focus::C14 => "search",
        Focus::C17 => "search",
    };
    let regs = regression_cases();
    let rs = par_shards(1, |_, st| {
        for c in &regs {
            check_enum(kind, c, st, |c, st| check_search(c, focus, st))?;
        }
        Ok(())
    });
    out.absorb_all(rs);
    if out.failure.is_some() {
        return out;
    }
    // year-edge corner rules (rule day in the first / last days of the year, extreme day times and offsets: a transition of one year
    // then falls up to nine days into the neighbouring year), searched just before / at / inside / after every event of a 7-year window
    {
        let mut rules = crate::orule::corner_rules(&[-604_799, -601_200, 0, 601_200, 604_799], &[-89_999, 0, 93_599]);
        // a third of the rules with both days at one edge of the year, and the rules that tie in some years only
        rules.extend(crate::orule::both_edge_rules().into_iter().step_by(3));
        rules.extend(crate::orule::tie_family_rules());
        let mut queries = vec![];
        for k in 0..16u32 {
            for side in 0..2u8 {
                for delta in [-1, 0, 1, 1800] {
                    queries.push(Query::AtEvent { sel: k * (u32::MAX / 16) + 1000, side, delta });
                }
            }
        }
        for dy in -1..=1 {
            queries.push(Query::NewYear { dy, side: 0, delta: 0 });
            queries.push(Query::NewYear { dy, side: 1, delta: -1 });
        }
        let (rr, qq) = (&rules, &queries);
        let n = 64u64;
        let rs = par_shards(n, |shard, st| {
            for (i, r) in rr.iter().enumerate().skip(shard as usize).step_by(n as usize) {
                if matches!(crate::orule::classify(r), Class::Overlap) && overlap_listed_as_known() {
                    continue;
                }
                let c = SearchCase { zone: MZone { trans: vec![], types: vec![r.std.clone(), r.dst.clone()], leaps: vec![], trailer: MTrailer::Alt(r.clone()) }, base_year: if i % 2 == 0 { 2003 } else { 1996 }, queries: qq.clone(), sec60_every: 3 };
                check_enum(kind, &c, st, |c, st| check_search(c, focus, st))?;
                st.class("year_edge_corner_rule_zones");
            }
            Ok(())
        });
        out.absorb_all(rs);
        if out.failure.is_some() {
            return out;
        }
    }
    let cases = ctx.tier.pick(20_000u32, 200_000u32);
    let strat = arb_search_case(16, 48);
    let rs = par_shards(16, |shard, st| pt_shard(ctx, kind, shard, cases, &strat, st, |c, st| check_search(c, focus, st)));
    out.absorb_all(rs);
    if out.failure.is_some() {
        return out;
    }
    let dense = arb_dense_case();
    let cases = ctx.tier.pick(7_000u32, 60_000u32);
    let rs = par_shards(16, |shard, st| pt_shard(ctx, kind, 100 + shard, cases, &dense, st, |c, st| check_search(c, focus, st)));
    out.absorb_all(rs);
    out
}

pub fn replay_search(focus: Focus, case: &serde_json::Value) -> Result<(), String> {
    check_search(&serde_json::from_value(case.clone()).map_err(|e| e.to_string())?, focus, &mut Stats::new())
}
