//! O-tzstr: independent recogniser / evaluator for POSIX TZ descriptions
//!   std offset[dst[offset][,start[/time],end[/time]]]
//! with the conventions stated in property C09, plus a sentence generator with independent spelling choices.
use crate::model::{MDay, MLtt, MRule};
use serde::{Deserialize, Serialize};

#[derive(Debug, Clone, PartialEq, Eq, Serialize, Deserialize)]
pub enum TzEval {
    Fixed(MLtt),
    Alt(MRule),
}

struct P<'a> {
    b: &'a [u8],
    i: usize,
}

impl<'a> P<'a> {
    fn peek(&self) -> Option<u8> {
        self.b.get(self.i).copied()
    }
    fn eat(&mut self, c: u8) -> bool {
        if self.peek() == Some(c) {
            self.i += 1;
            true
        } else {
            false
        }
    }
    fn done(&self) -> bool {
        self.i >= self.b.len()
    }
    /// digit run evaluated as a big integer (saturating): range checks come afterwards
    fn number(&mut self) -> Result<u128, String> {
        let s = self.i;
        let mut v: u128 = 0;
        while let Some(c) = self.peek() {
            if c.is_ascii_digit() {
                v = v.saturating_mul(10).saturating_add((c - b'0') as u128);
                self.i += 1;
            } else {
                break;
            }
        }
        if self.i == s {
            return Err(format!("digits expected at {s}"));
        }
        Ok(v)
    }
    fn name(&mut self) -> Result<String, String> {
        let s = if self.eat(b'<') {
            let st = self.i;
            while let Some(c) = self.peek() {
                if c == b'>' {
                    break;
                }
                self.i += 1;
            }
            let body = &self.b[st..self.i];
            if !self.eat(b'>') {
                return Err("unterminated quoted name".into());
            }
            if !body.iter().all(|c| c.is_ascii_alphanumeric() || *c == b'+' || *c == b'-') {
                return Err("illegal character in quoted name".into());
            }
            body
        } else {
            let st = self.i;
            while let Some(c) = self.peek() {
                if c.is_ascii_alphabetic() {
                    self.i += 1;
                } else {
                    break;
                }
            }
            &self.b[st..self.i]
        };
        if !(3..=7).contains(&s.len()) {
            return Err(format!("name length {}", s.len()));
        }
        Ok(String::from_utf8(s.to_vec()).unwrap())
    }
    /// [+-]? h[:m[:s]] ; returns (negative, h, m, s)
    fn hms(&mut self, signed: bool) -> Result<(bool, u128, u128, u128), String> {
        let mut neg = false;
        if signed {
            if self.eat(b'-') {
                neg = true;
            } else {
                self.eat(b'+');
            }
        }
        let h = self.number()?;
        let (mut m, mut s) = (0, 0);
        if self.eat(b':') {
            m = self.number()?;
            if self.eat(b':') {
                s = self.number()?;
            }
        }
        Ok((neg, h, m, s))
    }
    fn offset(&mut self) -> Result<i32, String> {
        let (neg, h, m, s) = self.hms(true)?;
        if h > 24 || m > 59 || s > 59 {
            return Err("offset field out of range".into());
        }
        let v = (h * 3600 + m * 60 + s) as i32;
        Ok(if neg { -v } else { v })
    }
    fn day(&mut self) -> Result<MDay, String> {
        match self.peek() {
            Some(b'J') => {
                self.i += 1;
                let n = self.number()?;
                if !(1..=365).contains(&n) {
                    return Err("Jn out of range".into());
                }
                Ok(MDay::J1(n as u16))
            }
            Some(b'M') => {
                self.i += 1;
                let m = self.number()?;
                if !self.eat(b'.') {
                    return Err("'.' expected".into());
                }
                let w = self.number()?;
                if !self.eat(b'.') {
                    return Err("'.' expected".into());
                }
                let d = self.number()?;
                if !(1..=12).contains(&m) || !(1..=5).contains(&w) || d > 6 {
                    return Err("Mm.w.d out of range".into());
                }
                Ok(MDay::M(m as u8, w as u8, d as u8))
            }
            _ => {
                let n = self.number()?;
                if n > 365 {
                    return Err("n out of range".into());
                }
                Ok(MDay::J0(n as u16))
            }
        }
    }
    fn rule_part(&mut self, ext: bool) -> Result<(MDay, i32), String> {
        let d = self.day()?;
        let mut t = 7200;
        if self.eat(b'/') {
            let (neg, h, m, s) = self.hms(ext)?;
            let hmax = if ext { 167 } else { 24 };
            if h > hmax || m > 59 || s > 59 {
                return Err("time field out of range".into());
            }
            t = (h * 3600 + m * 60 + s) as i32;
            if neg {
                t = -t;
            }
        }
        Ok((d, t))
    }
}

/// Complete-match recogniser + evaluator. `ext`: RFC 8536 extensions (signed / up to 167 h transition times).
pub fn parse(bytes: &[u8], ext: bool) -> Result<TzEval, String> {
    let mut p = P { b: bytes, i: 0 };
    let std_name = p.name()?;
    let std_off = p.offset()?;
    if p.done() {
        return Ok(TzEval::Fixed(MLtt { off: -std_off, dst: false, name: Some(std_name) }));
    }
    let dst_name = p.name()?;
    let dst_off = match p.peek() {
        None => return Err("DST name without rules".into()),
        Some(b',') => std_off - 3600,
        Some(_) => p.offset()?,
    };
    if !p.eat(b',') {
        return Err("',' expected before the start rule".into());
    }
    let (start, start_time) = p.rule_part(ext)?;
    if !p.eat(b',') {
        return Err("',' expected before the end rule".into());
    }
    let (end, end_time) = p.rule_part(ext)?;
    if !p.done() {
        return Err("trailing characters".into());
    }
    Ok(TzEval::Alt(MRule { std: MLtt { off: -std_off, dst: false, name: Some(std_name) }, dst: MLtt { off: -dst_off, dst: true, name: Some(dst_name) }, start, start_time, end, end_time }))
}

pub fn trim_ascii_ws(s: &[u8]) -> &[u8] {
    let mut a = 0;
    let mut b = s.len();
    while a < b && s[a].is_ascii_whitespace() {
        a += 1;
    }
    while b > a && s[b - 1].is_ascii_whitespace() {
        b -= 1;
    }
    &s[a..b]
}

// ---------------------------------------------------------------------------------------------
// sentence generator: AST + spelling

#[derive(Debug, Clone, Serialize, Deserialize)]
pub struct NumSpell {
    /// leading zeros to prepend
    pub zeros: u8,
}

#[derive(Debug, Clone, Serialize, Deserialize)]
pub struct HmsSpell {
    /// 0: omit sign when non-negative, 1: explicit '+' when non-negative
    pub plus: bool,
    /// how many fields to write: 1 (h), 2 (h:m), 3 (h:m:s); forced up when m / s are non-zero
    pub fields: u8,
    pub zh: u8,
    pub zm: u8,
    pub zs: u8,
}

pub fn spell_hms(neg: bool, h: u32, m: u32, s: u32, sp: &HmsSpell, allow_sign: bool) -> String {
    let mut out = String::new();
    if allow_sign {
        if neg {
            out.push('-');
        } else if sp.plus {
            out.push('+');
        }
    }
    let z = |n: u8| "0".repeat(n as usize);
    out.push_str(&format!("{}{}", z(sp.zh), h));
    let fields = sp.fields.max(if s != 0 { 3 } else if m != 0 { 2 } else { 1 });
    if fields >= 2 {
        out.push_str(&format!(":{}{}", z(sp.zm), m));
    }
    if fields >= 3 {
        out.push_str(&format!(":{}{}", z(sp.zs), s));
    }
    out
}

pub fn spell_name(name: &str, quoted: bool) -> String {
    if quoted || !name.bytes().all(|c| c.is_ascii_alphabetic()) {
        format!("<{name}>")
    } else {
        name.to_string()
    }
}

pub fn spell_day(d: &MDay, zeros: u8) -> String {
    let z = "0".repeat(zeros as usize);
    match *d {
        MDay::J1(n) => format!("J{z}{n}"),
        MDay::J0(n) => format!("{z}{n}"),
        MDay::M(m, w, dd) => format!("M{z}{m}.{z}{w}.{z}{dd}"),
    }
}

/// Render offsets/times in TZ-string convention. offset_tz = seconds west (sign as written in the string).
pub fn hms_parts(v: i32) -> (bool, u32, u32, u32) {
    let a = v.unsigned_abs();
    (v < 0, a / 3600, (a / 60) % 60, a % 60)
}
