//! Verification machinery for tz-rs: independent oracles, generators and per-property checkers.
#![allow(clippy::too_many_arguments, clippy::type_complexity)]

pub mod cal;
pub mod gens;
pub mod model;
pub mod orule;
pub mod oleap;
pub mod ozone;
pub mod dtinv;
pub mod search;
pub mod tzstr;
pub mod tzif;
pub mod alloccount;
pub mod fuzz_entry;
pub mod run;
pub mod props;
pub mod known;
pub mod clock;
