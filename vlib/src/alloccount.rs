//! Counting global allocator (per-thread counters): makes "allocates from an unvalidated header count" a visible failure.
use std::alloc::{GlobalAlloc, Layout, System};
use std::cell::Cell;
use std::sync::atomic::{AtomicBool, Ordering};

pub struct Counting;

thread_local! {
    static LIVE: Cell<usize> = const { Cell::new(0) };
    static PEAK: Cell<usize> = const { Cell::new(0) };
    static BIGGEST: Cell<usize> = const { Cell::new(0) };
}

static INSTALLED: AtomicBool = AtomicBool::new(false);

/// Single requests above this are refused (null -> allocation failure -> abort): a hostile count must not take the machine down.
pub const HARD_LIMIT: usize = 1 << 30;

unsafe impl GlobalAlloc for Counting {
    unsafe fn alloc(&self, layout: Layout) -> *mut u8 {
        INSTALLED.store(true, Ordering::Relaxed);
        let n = layout.size();
        let _ = BIGGEST.try_with(|b| {
            if n > b.get() {
                b.set(n)
            }
        });
        if n > HARD_LIMIT {
            return std::ptr::null_mut();
        }
        let p = unsafe { System.alloc(layout) };
        if !p.is_null() {
            let _ = LIVE.try_with(|l| {
                let v = l.get().saturating_add(n);
                l.set(v);
                let _ = PEAK.try_with(|p| {
                    if v > p.get() {
                        p.set(v)
                    }
                });
            });
        }
        p
    }
    unsafe fn dealloc(&self, ptr: *mut u8, layout: Layout) {
        let _ = LIVE.try_with(|l| l.set(l.get().saturating_sub(layout.size())));
        unsafe { System.dealloc(ptr, layout) }
    }
    unsafe fn realloc(&self, ptr: *mut u8, layout: Layout, new_size: usize) -> *mut u8 {
        let _ = BIGGEST.try_with(|b| {
            if new_size > b.get() {
                b.set(new_size)
            }
        });
        if new_size > HARD_LIMIT {
            return std::ptr::null_mut();
        }
        let p = unsafe { System.realloc(ptr, layout, new_size) };
        if !p.is_null() {
            let _ = LIVE.try_with(|l| {
                let v = l.get().saturating_sub(layout.size()).saturating_add(new_size);
                l.set(v);
                let _ = PEAK.try_with(|p| {
                    if v > p.get() {
                        p.set(v)
                    }
                });
            });
        }
        p
    }
}

pub fn installed() -> bool {
    INSTALLED.load(Ordering::Relaxed)
}

/// Run f and return (result, peak extra live heap during f, biggest single request during f) for the current thread.
pub fn measure<T>(f: impl FnOnce() -> T) -> (T, usize, usize) {
    let base = LIVE.with(|l| l.get());
    PEAK.with(|p| p.set(base));
    BIGGEST.with(|b| b.set(0));
    let r = f();
    let peak = PEAK.with(|p| p.get());
    let big = BIGGEST.with(|b| b.get());
    (r, peak.saturating_sub(base), big)
}
