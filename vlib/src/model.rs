//! Serde-able model types mirroring the crate's public constructors' arguments, and conversions to tz types.
use crate::cal;
use serde::{Deserialize, Serialize};
use tz::timezone::{AlternateTime, Julian0WithLeap, Julian1WithoutLeap, LeapSecond, LocalTimeType, MonthWeekDay, RuleDay, TimeZone, Transition, TransitionRule};
use tz::TzError;

#[derive(Debug, Clone, PartialEq, Eq, Hash, Serialize, Deserialize)]
pub struct MLtt {
    pub off: i32,
    pub dst: bool,
    pub name: Option<String>,
}

impl MLtt {
    pub fn new(off: i32, dst: bool, name: Option<&str>) -> Self {
        MLtt { off, dst, name: name.map(|s| s.to_string()) }
    }
    pub fn to_tz(&self) -> Result<LocalTimeType, TzError> {
        Ok(LocalTimeType::new(self.off, self.dst, self.name.as_ref().map(|s| s.as_bytes()))?)
    }
    /// value equality with a tz local time type (offset, flag, designation; "" = none)
    pub fn same_as(&self, t: &LocalTimeType) -> bool {
        self.off == t.ut_offset() && self.dst == t.is_dst() && self.name.as_deref().unwrap_or("") == t.time_zone_designation()
    }
}

#[derive(Debug, Clone, Copy, PartialEq, Eq, Hash, Serialize, Deserialize)]
pub enum MDay {
    /// Jn, n in 1..=365, never counts 29 February
    J1(u16),
    /// n, zero based 0..=365, counts 29 February
    J0(u16),
    /// Mm.w.d
    M(u8, u8, u8),
}

pub const N_NOTATIONS: usize = 365 + 366 + 420;

impl MDay {
    pub fn from_index(i: usize) -> MDay {
        if i < 365 {
            MDay::J1(i as u16 + 1)
        } else if i < 731 {
            MDay::J0((i - 365) as u16)
        } else {
            let k = i - 731;
            MDay::M((k / 35) as u8 + 1, ((k / 7) % 5) as u8 + 1, (k % 7) as u8)
        }
    }
    pub fn index(&self) -> usize {
        match *self {
            MDay::J1(n) => n as usize - 1,
            MDay::J0(n) => 365 + n as usize,
            MDay::M(m, w, d) => 731 + (m as usize - 1) * 35 + (w as usize - 1) * 7 + d as usize,
        }
    }
    pub fn to_tz(&self) -> Result<RuleDay, TzError> {
        Ok(match *self {
            MDay::J1(n) => RuleDay::Julian1WithoutLeap(Julian1WithoutLeap::new(n)?),
            MDay::J0(n) => RuleDay::Julian0WithLeap(Julian0WithLeap::new(n)?),
            MDay::M(m, w, d) => RuleDay::MonthWeekDay(MonthWeekDay::new(m, w, d)?),
        })
    }
    /// Day number (days since 1970-01-01) of this rule day in year y — O-rule, from O-cal only.
    pub fn abs_day(&self, y: i64) -> i64 {
        match *self {
            MDay::J1(n) => {
                let n = n as i64;
                cal::days_from_civil(y, 1, 1) + (n - 1) + if cal::is_leap(y) && n >= 60 { 1 } else { 0 }
            }
            MDay::J0(n) => cal::days_from_civil(y, 1, 1) + n as i64,
            MDay::M(m, w, d) => {
                let first = cal::days_from_civil(y, m as i64, 1);
                let delta = cal::fmod(d as i64 - cal::weekday(first), 7);
                let mut day = first + delta + 7 * (w as i64 - 1);
                let end = first + cal::days_in_month(y, m as i64);
                while day >= end {
                    day -= 7;
                }
                day
            }
        }
    }
    pub fn spell(&self) -> String {
        match *self {
            MDay::J1(n) => format!("J{n}"),
            MDay::J0(n) => format!("{n}"),
            MDay::M(m, w, d) => format!("M{m}.{w}.{d}"),
        }
    }
}

#[derive(Debug, Clone, PartialEq, Eq, Hash, Serialize, Deserialize)]
pub struct MRule {
    pub std: MLtt,
    pub dst: MLtt,
    pub start: MDay,
    pub start_time: i32,
    pub end: MDay,
    pub end_time: i32,
}

impl MRule {
    pub fn to_tz(&self) -> Result<AlternateTime, TzError> {
        Ok(AlternateTime::new(self.std.to_tz()?, self.dst.to_tz()?, self.start.to_tz()?, self.start_time, self.end.to_tz()?, self.end_time)?)
    }
    /// DST start instant of year y (start day at start time on the standard-time clock)
    pub fn s(&self, y: i64) -> i64 {
        self.start.abs_day(y) * 86400 + self.start_time as i64 - self.std.off as i64
    }
    /// DST end instant of year y (end day at end time on the daylight-time clock)
    pub fn e(&self, y: i64) -> i64 {
        self.end.abs_day(y) * 86400 + self.end_time as i64 - self.dst.off as i64
    }
    /// d = (start_time - std_off) - (end_time - dst_off)
    pub fn d(&self) -> i64 {
        (self.start_time as i64 - self.std.off as i64) - (self.end_time as i64 - self.dst.off as i64)
    }
    pub fn spell(&self) -> String {
        format!("std{:+}s/dst{:+}s,{}/{}s,{}/{}s", self.std.off, self.dst.off, self.start.spell(), self.start_time, self.end.spell(), self.end_time)
    }
}

#[derive(Debug, Clone, PartialEq, Eq, Hash, Serialize, Deserialize)]
pub enum MTrailer {
    None,
    Fixed(MLtt),
    Alt(MRule),
}

#[derive(Debug, Clone, PartialEq, Eq, Hash, Serialize, Deserialize)]
pub struct MZone {
    /// (time on the leap-counting scale, type index)
    pub trans: Vec<(i64, usize)>,
    pub types: Vec<MLtt>,
    /// (time on the leap-counting scale, cumulative correction)
    pub leaps: Vec<(i64, i32)>,
    pub trailer: MTrailer,
}

pub struct TzParts {
    pub transitions: Vec<Transition>,
    pub types: Vec<LocalTimeType>,
    pub leaps: Vec<LeapSecond>,
    pub rule: Option<TransitionRule>,
}

impl MTrailer {
    pub fn to_tz(&self) -> Result<Option<TransitionRule>, TzError> {
        Ok(match self {
            MTrailer::None => None,
            MTrailer::Fixed(t) => Some(TransitionRule::Fixed(t.to_tz()?)),
            MTrailer::Alt(r) => Some(TransitionRule::Alternate(r.to_tz()?)),
        })
    }
}

impl MZone {
    /// Component construction (each component through its own public constructor). Err = a component was refused.
    pub fn parts(&self) -> Result<TzParts, TzError> {
        let mut types = Vec::with_capacity(self.types.len());
        for t in &self.types {
            types.push(t.to_tz()?);
        }
        Ok(TzParts {
            transitions: self.trans.iter().map(|&(t, i)| Transition::new(t, i)).collect(),
            types,
            leaps: self.leaps.iter().map(|&(t, c)| LeapSecond::new(t, c)).collect(),
            rule: self.trailer.to_tz()?,
        })
    }
    pub fn to_tz(&self) -> Result<TimeZone, TzError> {
        let p = self.parts()?;
        TimeZone::new(p.transitions, p.types, p.leaps, p.rule)
    }
}

impl MLtt {
    pub fn from_tz(t: &LocalTimeType) -> MLtt {
        let n = t.time_zone_designation();
        MLtt { off: t.ut_offset(), dst: t.is_dst(), name: if n.is_empty() { None } else { Some(n.to_string()) } }
    }
}

impl MDay {
    pub fn from_tz(d: &RuleDay) -> MDay {
        match d {
            RuleDay::Julian1WithoutLeap(x) => MDay::J1(x.get()),
            RuleDay::Julian0WithLeap(x) => MDay::J0(x.get()),
            RuleDay::MonthWeekDay(x) => MDay::M(x.month(), x.week(), x.week_day()),
        }
    }
}

impl MRule {
    pub fn from_tz(a: &AlternateTime) -> MRule {
        MRule { std: MLtt::from_tz(a.std()), dst: MLtt::from_tz(a.dst()), start: MDay::from_tz(a.dst_start()), start_time: a.dst_start_time(), end: MDay::from_tz(a.dst_end()), end_time: a.dst_end_time() }
    }
}

impl MZone {
    /// Read a zone back through its getters only (primitive values), so that comparisons of decoded zones do not lean on the crate's
    /// own `PartialEq` impls.
    pub fn from_tz(z: tz::timezone::TimeZoneRef<'_>) -> MZone {
        MZone {
            trans: z.transitions().iter().map(|t| (t.unix_leap_time(), t.local_time_type_index())).collect(),
            types: z.local_time_types().iter().map(MLtt::from_tz).collect(),
            leaps: z.leap_seconds().iter().map(|l| (l.unix_leap_time(), l.correction())).collect(),
            trailer: match z.extra_rule() {
                None => MTrailer::None,
                Some(TransitionRule::Fixed(t)) => MTrailer::Fixed(MLtt::from_tz(t)),
                Some(TransitionRule::Alternate(a)) => MTrailer::Alt(MRule::from_tz(a)),
            },
        }
    }
}
