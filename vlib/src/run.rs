//! Shared run infrastructure: context, statistics, sharded proptest runner, evidence and replay files.

use proptest::strategy::{Strategy, ValueTree};
use proptest::test_runner::{Config, RngAlgorithm, RngSeed, TestCaseError, TestError, TestRng, TestRunner};
use rayon::prelude::*;
use serde::Serialize;
use serde_json::{json, Value};
use std::cell::RefCell;
use std::collections::{BTreeMap, HashSet};
use std::hash::{Hash, Hasher};
use std::path::PathBuf;
use std::time::Instant;

/// Root of the verification tree (scratch, evidence, data). `VERIF_HOME` overrides it for side-by-side runs (mutation sweep).
pub fn verif_dir() -> PathBuf {
    PathBuf::from(std::env::var("VERIF_HOME").unwrap_or_else(|_| "/verif".to_string()))
}

#[derive(Debug, Clone, Copy, PartialEq, Eq)]
pub enum Tier {
    Quick,
    Thorough,
}

impl Tier {
    pub fn name(&self) -> &'static str {
        match self {
            Tier::Quick => "quick",
            Tier::Thorough => "thorough",
        }
    }
    /// Pick a work amount by tier.
    pub fn pick<T>(&self, quick: T, thorough: T) -> T {
        match self {
            Tier::Quick => quick,
            Tier::Thorough => thorough,
        }
    }
}

#[derive(Debug, Clone)]
pub struct Ctx {
    pub id: String,
    pub tier: Tier,
    pub seed: u64,
    pub start: Instant,
}

/// A violation: human summary + machine case (what `--replay` re-executes).
#[derive(Debug, Clone, Serialize, serde::Deserialize)]
pub struct Failure {
    /// which checker inside the property produced the case (dispatch key for replay)
    pub kind: String,
    pub summary: String,
    pub case: Value,
}

impl Failure {
    pub fn new(kind: &str, summary: impl Into<String>, case: impl Serialize) -> Self {
        Failure { kind: kind.to_string(), summary: summary.into(), case: serde_json::to_value(case).unwrap_or(Value::Null) }
    }
}

const DISTINCT_CAP: usize = 1 << 21;
const SAMPLE_CAP: usize = 6;

/// Per-shard statistics, merged at the end.
#[derive(Default)]
pub struct Stats {
    pub evaluations: u64,
    /// number of non-trivial cases counted exactly (enumerations: all distinct by construction)
    pub nontrivial_enum: u64,
    /// hashes of non-trivial random cases (distinctness measured, capped)
    pub nontrivial_hashes: HashSet<u64>,
    pub nontrivial_capped: bool,
    pub classes: BTreeMap<String, u64>,
    pub samples: BTreeMap<String, Vec<Value>>,
    pub excluded: BTreeMap<String, u64>,
    pub frozen: bool,
}

impl Stats {
    pub fn new() -> Self {
        Self::default()
    }
    #[inline]
    pub fn eval(&mut self, n: u64) {
        if !self.frozen {
            self.evaluations += n;
        }
    }
    /// Non-trivial case coming from a complete enumeration (distinct by construction).
    #[inline]
    pub fn nontrivial_exact(&mut self, n: u64) {
        if !self.frozen {
            self.nontrivial_enum += n;
        }
    }
    /// Non-trivial case from random generation: counted by hash so duplicates are not counted twice.
    #[inline]
    pub fn nontrivial<H: Hash>(&mut self, key: &H) {
        if self.frozen {
            return;
        }
        if self.nontrivial_hashes.len() >= DISTINCT_CAP {
            self.nontrivial_capped = true;
            return;
        }
        let mut h = std::collections::hash_map::DefaultHasher::new();
        key.hash(&mut h);
        self.nontrivial_hashes.insert(h.finish());
    }
    #[inline]
    pub fn class(&mut self, name: &str) {
        self.class_n(name, 1);
    }
    #[inline]
    pub fn class_n(&mut self, name: &str, n: u64) {
        if self.frozen {
            return;
        }
        if let Some(c) = self.classes.get_mut(name) {
            *c += n;
        } else {
            self.classes.insert(name.to_string(), n);
        }
    }
    pub fn exclude(&mut self, name: &str) {
        if self.frozen {
            return;
        }
        *self.excluded.entry(name.to_string()).or_insert(0) += 1;
    }
    /// Record a sample for a class (kept: first SAMPLE_CAP per class).
    pub fn sample(&mut self, class: &str, f: impl FnOnce() -> Value) {
        if self.frozen {
            return;
        }
        let v = self.samples.entry(class.to_string()).or_default();
        if v.len() < SAMPLE_CAP {
            v.push(f());
        }
    }
    pub fn wants_sample(&self, class: &str) -> bool {
        !self.frozen && self.samples.get(class).map(|v| v.len()).unwrap_or(0) < SAMPLE_CAP
    }
    pub fn merge(&mut self, other: Stats) {
        self.evaluations += other.evaluations;
        self.nontrivial_enum += other.nontrivial_enum;
        self.nontrivial_capped |= other.nontrivial_capped;
        for h in other.nontrivial_hashes {
            if self.nontrivial_hashes.len() >= DISTINCT_CAP * 4 {
                self.nontrivial_capped = true;
                break;
            }
            self.nontrivial_hashes.insert(h);
        }
        for (k, v) in other.classes {
            *self.classes.entry(k).or_insert(0) += v;
        }
        for (k, v) in other.excluded {
            *self.excluded.entry(k).or_insert(0) += v;
        }
        for (k, v) in other.samples {
            let e = self.samples.entry(k).or_default();
            for s in v {
                if e.len() < SAMPLE_CAP {
                    e.push(s);
                }
            }
        }
    }
    pub fn distinct_nontrivial(&self) -> u64 {
        self.nontrivial_enum + self.nontrivial_hashes.len() as u64
    }
}

/// Result of one property run.
pub struct Outcome {
    pub stats: Stats,
    pub failure: Option<Failure>,
    pub rule: String,
    pub exhaustive: bool,
    pub assumptions: Vec<String>,
    pub extra: BTreeMap<String, Value>,
    pub known_hits: Vec<String>,
}

impl Outcome {
    pub fn new(rule: &str) -> Self {
        Outcome { stats: Stats::new(), failure: None, rule: rule.to_string(), exhaustive: false, assumptions: vec![], extra: BTreeMap::new(), known_hits: vec![] }
    }
    pub fn absorb(&mut self, r: ShardResult) {
        self.stats.merge(r.stats);
        if self.failure.is_none() {
            self.failure = r.failure;
        }
    }
    pub fn absorb_all(&mut self, rs: Vec<ShardResult>) {
        for r in rs {
            self.absorb(r);
        }
    }
}

pub struct ShardResult {
    pub stats: Stats,
    pub failure: Option<Failure>,
}

pub fn mix(seed: u64, id: &str, part: &str, shard: u64) -> u64 {
    // splitmix-style mixing of (seed, id, part, shard); pure function.
    let mut x = seed ^ 0x9E37_79B9_7F4A_7C15;
    for b in id.bytes().chain(part.bytes()) {
        x = (x ^ b as u64).wrapping_mul(0x1000_0000_01B3);
    }
    x ^= shard.wrapping_mul(0xD6E8_FEB8_6659_FD93);
    x ^= x >> 30;
    x = x.wrapping_mul(0xBF58_476D_1CE4_E5B9);
    x ^= x >> 27;
    x = x.wrapping_mul(0x94D0_49BB_1331_11EB);
    x ^ (x >> 31)
}

/// Run `n_shards` independent shards in parallel (rayon); results come back in shard order so the
/// reported failure is the lowest shard's, independent of scheduling.
pub fn par_shards<F>(n_shards: u64, f: F) -> Vec<ShardResult>
where
    F: Fn(u64, &mut Stats) -> Result<(), Failure> + Sync + Send,
{
    (0..n_shards)
        .into_par_iter()
        .map(|shard| {
            let mut st = Stats::new();
            let r = std::panic::catch_unwind(std::panic::AssertUnwindSafe(|| f(shard, &mut st)));
            let failure = match r {
                Ok(Ok(())) => None,
                Ok(Err(fl)) => Some(fl),
                Err(p) => {
                    let m = panic_msg(&p);
                    let kind = if m.starts_with(HARNESS_PANIC) { "infra" } else { "panic" };
                    Some(Failure::new(kind, format!("panic outside a generated case in shard {shard}: {m}"), json!({"shard": shard})))
                }
            };
            ShardResult { stats: st, failure }
        })
        .collect()
}

thread_local! {
    static LAST_PANIC_LOC: RefCell<String> = const { RefCell::new(String::new()) };
}

/// Quiet hook that remembers where the panic happened, so that a panic inside the harness itself
/// (a bug of the checker: exit 2) is never mistaken for a panic of the code under test (a violation).
pub fn install_panic_hook() {
    std::panic::set_hook(Box::new(|info| {
        let loc = info.location().map(|l| format!("{}:{}", l.file(), l.line())).unwrap_or_default();
        LAST_PANIC_LOC.with(|l| *l.borrow_mut() = loc);
    }));
}

pub const HARNESS_PANIC: &str = "HARNESS-PANIC";

pub fn panic_msg(p: &Box<dyn std::any::Any + Send>) -> String {
    let payload = if let Some(s) = p.downcast_ref::<&str>() {
        s.to_string()
    } else if let Some(s) = p.downcast_ref::<String>() {
        s.clone()
    } else {
        "<non-string panic payload>".into()
    };
    let loc = LAST_PANIC_LOC.with(|l| l.borrow().clone());
    // a deliberate report from inside the shared zone exercise (fuzz_entry): an oracle verdict, not a bug of the harness
    if payload.starts_with("VERIF-C07 ") {
        return payload;
    }
    if loc.starts_with("src/") || loc.contains("vlib/") || loc.contains("/verif/") || loc.contains(".cargo/registry") {
        format!("{HARNESS_PANIC} {payload} at {loc}")
    } else {
        format!("{payload} at {loc}")
    }
}

/// Run a checker over an explicit enumeration inside one shard. The checker is wrapped in
/// catch_unwind so that a panic of the code under test becomes a failure with its case attached.
pub fn check_enum<C: Serialize + Clone>(kind: &str, case: &C, st: &mut Stats, f: impl FnOnce(&C, &mut Stats) -> Result<(), String>) -> Result<(), Failure> {
    let r = std::panic::catch_unwind(std::panic::AssertUnwindSafe(|| f(case, st)));
    match r {
        Ok(Ok(())) => Ok(()),
        Ok(Err(msg)) => Err(Failure::new(kind, msg, case.clone())),
        Err(p) => {
            let m = panic_msg(&p);
            if m.starts_with(HARNESS_PANIC) {
                Err(Failure::new("infra", m, case.clone()))
            } else {
                Err(Failure::new(kind, format!("PANIC: {m}"), case.clone()))
            }
        }
    }
}

/// Drive a proptest strategy inside one shard: deterministic seed, no persistence, shrinking on failure.
/// `check` returns Err(message) on violation. Statistics stop being counted at the first failure
/// (the closure is re-run by the shrinker).
pub fn pt_shard<S, F>(ctx: &Ctx, part: &str, shard: u64, cases: u32, strat: &S, st: &mut Stats, check: F) -> Result<(), Failure>
where
    S: Strategy,
    S::Value: Serialize + Clone + std::fmt::Debug,
    F: Fn(&S::Value, &mut Stats) -> Result<(), String>,
{
    let seed = mix(ctx.seed, &ctx.id, part, shard);
    let mut cfg = Config::default();
    cfg.cases = cases;
    cfg.failure_persistence = None;
    cfg.rng_seed = RngSeed::Fixed(seed);
    cfg.max_shrink_iters = 20000;
    cfg.max_global_rejects = u32::MAX;
    cfg.max_local_rejects = u32::MAX; // cumulative over the whole shard in proptest: generator rejection rates are measured separately
    cfg.verbose = 0;
    let mut runner = TestRunner::new(cfg);
    let cell = RefCell::new(std::mem::take(st));
    let res = runner.run(strat, |v| {
        let r = {
            let mut s = cell.borrow_mut();
            std::panic::catch_unwind(std::panic::AssertUnwindSafe(|| check(&v, &mut s)))
        };
        match r {
            Ok(Ok(())) => Ok(()),
            Ok(Err(msg)) => {
                cell.borrow_mut().frozen = true;
                Err(TestCaseError::fail(msg))
            }
            Err(p) => {
                cell.borrow_mut().frozen = true;
                Err(TestCaseError::fail(format!("PANIC: {}", panic_msg(&p))))
            }
        }
    });
    *st = cell.into_inner();
    st.frozen = false;
    match res {
        Ok(()) => Ok(()),
        Err(TestError::Fail(reason, value)) => {
            let r = format!("{}", reason);
            if r.contains(HARNESS_PANIC) {
                Err(Failure::new("infra", r, value))
            } else {
                Err(Failure::new(part, r, value))
            }
        }
        Err(TestError::Abort(reason)) => Err(Failure::new("abort", format!("proptest aborted (generator problem, not a finding): {reason}"), json!(null))),
    }
}

/// A deterministic TestRng for places where values are drawn directly from strategies.
pub fn rng_for(ctx: &Ctx, part: &str, shard: u64) -> TestRng {
    let seed = mix(ctx.seed, &ctx.id, part, shard);
    let mut bytes = [0u8; 32];
    for (i, chunk) in bytes.chunks_mut(8).enumerate() {
        chunk.copy_from_slice(&mix(seed, "rng", part, i as u64).to_le_bytes());
    }
    TestRng::from_seed(RngAlgorithm::ChaCha, &bytes)
}

/// Draw one value from a strategy with a deterministic runner (no shrinking: used for enumerations'
/// random cross terms; failures there are minimised by the enumeration order instead).
pub struct Drawer {
    runner: TestRunner,
}
impl Drawer {
    pub fn new(ctx: &Ctx, part: &str, shard: u64) -> Self {
        let mut cfg = Config::default();
        cfg.failure_persistence = None;
        cfg.max_local_rejects = u32::MAX; // proptest counts local rejects cumulatively per runner
        cfg.max_global_rejects = u32::MAX;
        Drawer { runner: TestRunner::new_with_rng(cfg, rng_for(ctx, part, shard)) }
    }
    pub fn draw<S: Strategy>(&mut self, s: &S) -> S::Value {
        s.new_tree(&mut self.runner).expect("strategy rejected").current()
    }
}

pub fn replay_dir(id: &str) -> PathBuf {
    verif_dir().join("replays").join(id)
}

pub fn write_replay(id: &str, fl: &Failure) -> PathBuf {
    let dir = replay_dir(id);
    let _ = std::fs::create_dir_all(&dir);
    let body = json!({"property": id, "kind": fl.kind, "summary": fl.summary, "case": fl.case});
    let text = serde_json::to_string_pretty(&body).unwrap();
    let mut h = std::collections::hash_map::DefaultHasher::new();
    text.hash(&mut h);
    let path = dir.join(format!("{}-{:016x}.json", fl.kind.replace(['/', ' '], "_"), h.finish()));
    let _ = std::fs::write(&path, text);
    path
}

pub fn write_evidence(ctx: &Ctx, out: &Outcome, violations: u64) {
    if std::env::var("VERIF_NO_EVIDENCE").is_ok() {
        return;
    }
    let dir = verif_dir().join("evidence");
    let _ = std::fs::create_dir_all(&dir);
    let st = &out.stats;
    let mut samples: Vec<Value> = vec![];
    for (class, vs) in &st.samples {
        for v in vs {
            samples.push(json!({"class": class, "case": v}));
        }
    }
    if samples.is_empty() {
        samples.push(json!({"note": "no sample recorded"}));
    }
    let mut coverage = serde_json::Map::new();
    coverage.insert("evaluations".into(), json!(st.evaluations));
    coverage.insert("distinct_nontrivial".into(), json!(st.distinct_nontrivial()));
    coverage.insert("distinct_nontrivial_note".into(), json!(if st.nontrivial_capped { "hash set of random non-trivial cases reached its cap: count is a lower bound" } else { "exact: enumerated non-trivial cases + distinct hashes of random non-trivial cases" }));
    coverage.insert("rule".into(), json!(out.rule));
    coverage.insert("samples".into(), Value::Array(samples));
    coverage.insert("exhaustive".into(), json!(out.exhaustive));
    coverage.insert("classes".into(), json!(st.classes));
    coverage.insert("excluded_by_construction".into(), json!(st.excluded));
    coverage.insert("known_finding_hits".into(), json!(out.known_hits));
    for (k, v) in &out.extra {
        coverage.insert(k.clone(), v.clone());
    }
    let ev = json!({
        "property_id": ctx.id,
        "tier": ctx.tier.name(),
        "seed": ctx.seed,
        "level": "exploration",
        "coverage": Value::Object(coverage),
        "assumptions": out.assumptions,
        "wall_s": ctx.start.elapsed().as_secs_f64(),
        "violations": violations,
    });
    let path = dir.join(format!("{}.json", ctx.id));
    let _ = std::fs::write(path, serde_json::to_string_pretty(&ev).unwrap());
}

/// Map a 32-bit draw monotonically onto 0..len (never `%`, so shrinking converges).
#[inline]
pub fn idx(draw: u32, len: usize) -> usize {
    ((draw as u64 * len as u64) >> 32) as usize
}
