//! O-rule: rule instants, classification over a full 400-year cycle, DST predicate; C11 brute-force oracle.
use crate::cal;
use crate::model::{MDay, MRule, N_NOTATIONS};
use serde::{Deserialize, Serialize};

#[derive(Debug, Clone, Copy, PartialEq, Eq, Hash, Serialize, Deserialize)]
pub enum Class {
    /// S(y) < E(y) <= S(y+1) .. for every y, no tie
    SFirst,
    EFirst,
    /// S(y) == E(y) for every y (never on DST)
    AllTie,
    /// S-first with S(y)==E(y) in some years only
    MixedTieS,
    /// E-first with S(y)==E(y) in some years only
    MixedTieE,
    /// sign-stable (constructor must accept) but periods do not interleave: DST (or standard) period longer than a year
    Overlap,
    /// some comparison changes sign over the years: constructor must refuse
    Unstable,
}

impl Class {
    pub fn name(&self) -> &'static str {
        match self {
            Class::SFirst => "s_first",
            Class::EFirst => "e_first",
            Class::AllTie => "all_tie",
            Class::MixedTieS => "mixed_tie_s_first",
            Class::MixedTieE => "mixed_tie_e_first",
            Class::Overlap => "overlapping",
            Class::Unstable => "unstable",
        }
    }
    pub fn interleaves(&self) -> bool {
        !matches!(self, Class::Overlap | Class::Unstable)
    }
}

const Y0: i64 = 2000;

/// Classify by evaluating all 400 years of a cycle (S/E patterns repeat with the 400-year cycle).
pub fn classify(r: &MRule) -> Class {
    let mut s_first = true;
    let mut e_first = true;
    let mut ties = 0;
    // sign stability of the three comparisons
    let (mut c1_le, mut c1_ge, mut c2_le, mut c2_ge, mut c3_le, mut c3_ge) = (true, true, true, true, true, true);
    let mut s_prev = r.s(Y0);
    let mut e_prev = r.e(Y0);
    for y in Y0..Y0 + 400 {
        let (s, e) = (s_prev, e_prev);
        let (s1, e1) = (r.s(y + 1), r.e(y + 1));
        if s == e {
            ties += 1;
        }
        if !(s <= e && e <= s1) {
            s_first = false;
        }
        if !(e <= s && s <= e1) {
            e_first = false;
        }
        c1_le &= s <= e;
        c1_ge &= s >= e;
        c2_le &= e <= s1;
        c2_ge &= e >= s1;
        c3_le &= s <= e1;
        c3_ge &= s >= e1;
        s_prev = s1;
        e_prev = e1;
    }
    if s_first && e_first {
        Class::AllTie
    } else if s_first {
        if ties > 0 {
            Class::MixedTieS
        } else {
            Class::SFirst
        }
    } else if e_first {
        if ties > 0 {
            Class::MixedTieE
        } else {
            Class::EFirst
        }
    } else if (c1_le || c1_ge) && (c2_le || c2_ge) && (c3_le || c3_ge) {
        Class::Overlap
    } else {
        Class::Unstable
    }
}

/// Is instant u on daylight time? The order is the global one, never the queried year's.
/// For 'overlapping' rules the periods of one kind last longer than a year and cover every instant: DST always if the start precedes
/// the end within a year, standard time always otherwise (this is also what the forward lookup's case analysis yields).
pub fn is_dst(r: &MRule, class: Class, u: i64) -> bool {
    let y = cal::civil_from_unix(u as i128).y;
    match class {
        Class::Overlap => r.s(2001) < r.e(2001),
        Class::SFirst | Class::MixedTieS | Class::AllTie => (y - 2..=y + 2).any(|yy| r.s(yy) <= u && u < r.e(yy)),
        Class::EFirst | Class::MixedTieE => (y - 2..=y + 2).any(|yy| r.s(yy) <= u && u < r.e(yy + 1)),
        _ => panic!("is_dst on a non-interleaving rule"),
    }
}

/// General DST predicate usable for every accepted rule (incl. overlapping): union of the periods [S(y), E(y')) where E(y') is the
/// first end instant at or after S(y) in the rule's global order. For overlapping rules the union covers everything (or nothing).
pub fn is_dst_general(r: &MRule, class: Class, u: i64) -> Option<bool> {
    match class {
        Class::Overlap | Class::Unstable => None,
        c => Some(is_dst(r, c, u)),
    }
}

/// Year tables for the C11 oracle: day number (relative to 2000-01-01) of each of the 1151 notations in years 2000..=2401.
pub struct DayTables {
    pub t: Vec<[i32; 402]>,
}

impl DayTables {
    pub fn build() -> Self {
        let base = cal::days_from_civil(Y0, 1, 1);
        let mut t = Vec::with_capacity(N_NOTATIONS);
        for i in 0..N_NOTATIONS {
            let d = MDay::from_index(i);
            let mut row = [0i32; 402];
            for (k, slot) in row.iter_mut().enumerate() {
                *slot = (d.abs_day(Y0 + k as i64) - base) as i32;
            }
            t.push(row);
        }
        DayTables { t }
    }
    /// (min, max) over a full cycle of: D1 = dayS(y) - dayE(y), D2 = dayE(y) - dayS(y+1), D3 = dayS(y) - dayE(y+1)
    pub fn spans(&self, start: usize, end: usize) -> [(i64, i64); 3] {
        let (s, e) = (&self.t[start], &self.t[end]);
        let mut r = [(i64::MAX, i64::MIN); 3];
        for y in 0..400 {
            let d = [(s[y] - e[y]) as i64, (e[y] - s[y + 1]) as i64, (s[y] - e[y + 1]) as i64];
            for k in 0..3 {
                r[k].0 = r[k].0.min(d[k]);
                r[k].1 = r[k].1.max(d[k]);
            }
        }
        r
    }
}

/// C11 oracle: with d = (start_time - std_off) - (end_time - dst_off), the three comparisons
/// S(y)-E(y) = D1*86400 + d, E(y)-S(y+1) = D2*86400 - d, S(y)-E(y+1) = D3*86400 + d never change sign (ties allowed).
pub fn order_stable(spans: &[(i64, i64); 3], d: i64) -> bool {
    let stable = |lo: i64, hi: i64| hi <= 0 || lo >= 0;
    stable(spans[0].0 * 86400 + d, spans[0].1 * 86400 + d) && stable(spans[1].0 * 86400 - d, spans[1].1 * 86400 - d) && stable(spans[2].0 * 86400 + d, spans[2].1 * 86400 + d)
}

/// Year-edge corner rules: a rule day at the very beginning / end of the year combined with extreme day times and offsets (the start /
/// end instant then lies up to 9 days into the neighbouring year), the other day in mid-year; both orientations; order-stable ones only.
pub fn corner_rules(times: &[i32], offs: &[i32]) -> Vec<MRule> {
    use crate::model::{MDay, MLtt};
    let mut edge_days: Vec<MDay> = vec![];
    for n in [1u16, 2, 3, 363, 364, 365] {
        edge_days.push(MDay::J1(n));
    }
    for n in [0u16, 1, 2, 363, 364, 365] {
        edge_days.push(MDay::J0(n));
    }
    for d in [0u8, 3, 6] {
        edge_days.push(MDay::M(1, 1, d));
        edge_days.push(MDay::M(12, 5, d));
    }
    let mut v = vec![];
    for &day in &edge_days {
        for &t in times {
            for &o in offs {
                for as_start in [true, false] {
                    for &other_off in &[o, 0, (o as i64 + 3600).clamp(-89_999, 93_599) as i32] {
                        let mid = MDay::J1(180);
                        let (std_off, dst_off) = if as_start { (o, other_off) } else { (other_off, o) };
                        let rule = if as_start {
                            MRule { std: MLtt::new(std_off, false, Some("STD")), dst: MLtt::new(dst_off, true, Some("DST")), start: day, start_time: t, end: mid, end_time: 7200 }
                        } else {
                            MRule { std: MLtt::new(std_off, false, Some("STD")), dst: MLtt::new(dst_off, true, Some("DST")), start: mid, start_time: 7200, end: day, end_time: t }
                        };
                        if classify(&rule) != Class::Unstable {
                            v.push(rule);
                        }
                    }
                }
            }
        }
    }
    v
}

/// Both rule days at the SAME edge of the year, with day times that throw both events into the neighbouring year (e.g. J365/100 and
/// J365/160: DST from 4 Jan 04:00 to 6 Jan 16:00 of the next year; J1/-100 and J1/-30: both in the last days of December).
/// Order-stable ones only.
pub fn both_edge_rules() -> Vec<MRule> {
    use crate::model::{MDay, MLtt};
    let late = [MDay::J1(365), MDay::J1(364), MDay::J0(365), MDay::J0(364), MDay::M(12, 5, 0), MDay::M(12, 5, 6)];
    let early = [MDay::J1(1), MDay::J1(2), MDay::J0(0), MDay::J0(1), MDay::M(1, 1, 0), MDay::M(1, 1, 3)];
    let hours = [30i32, 100, 120, 160, 167];
    let offs = [(0i32, 3600i32), (0, 0), (3600, 0), (-18_000, -14_400)];
    let mut v = vec![];
    for (days, sign) in [(&late, 1i32), (&early, -1i32)] {
        for &d1 in days.iter() {
            for &d2 in days.iter() {
                for &h1 in &hours {
                    for &h2 in &hours {
                        if h1 == h2 {
                            continue;
                        }
                        for &(so, doff) in &offs {
                            let rule = MRule { std: MLtt::new(so, false, Some("STD")), dst: MLtt::new(doff, true, Some("DST")), start: d1, start_time: sign * h1 * 3600, end: d2, end_time: sign * h2 * 3600 };
                            if classify(&rule) != Class::Unstable {
                                v.push(rule);
                            }
                        }
                    }
                }
            }
        }
    }
    v
}

/// Rules whose start and end fall on the same day in some years only (last vs fourth week-day of a month): every month, week day and
/// orientation; UTC times of day equal, so the two events coincide in those years.
pub fn tie_family_rules() -> Vec<MRule> {
    use crate::model::{MDay, MLtt};
    let mut v = vec![];
    for m in 1..=12u8 {
        for d in 0..=6u8 {
            for (a, b) in [(MDay::M(m, 5, d), MDay::M(m, 4, d)), (MDay::M(m, 4, d), MDay::M(m, 5, d))] {
                for (so, doff, stt, et) in [(0i32, 3600i32, 7200i32, 10_800i32), (0, 0, 0, 0), (3600, 0, 3600, 0)] {
                    let rule = MRule { std: MLtt::new(so, false, Some("STD")), dst: MLtt::new(doff, true, Some("DST")), start: a, start_time: stt, end: b, end_time: et };
                    if classify(&rule) != Class::Unstable {
                        v.push(rule);
                    }
                }
            }
        }
    }
    v
}
