//! Entry functions shared by the libFuzzer targets (/verif/fuzz) and by `vcheck C07` (corpus replay, structured enumeration).
//! Each returns Err(description) on a violation; the fuzz targets turn that into a panic (crash artifact).
//! A panic of the code under test propagates (libFuzzer: crash; vcheck: caught with the case attached).
use crate::alloccount;
use crate::props::{c08, c09};
use crate::run::Stats;
use arbitrary::Unstructured;
use tz::datetime::FoundDateTimeKind;
use tz::timezone::{AlternateTime, Julian0WithLeap, Julian1WithoutLeap, LeapSecond, LocalTimeType, MonthWeekDay, RuleDay, TimeZone, TimeZoneRef, TimeZoneSettings, Transition, TransitionRule};
use tz::{DateTime, UtcDateTime};

pub const TARGETS: [&str; 3] = ["tzif", "tzstr", "api"];

pub fn run_target(name: &str, data: &[u8]) -> Result<(), String> {
    match name {
        "tzif" => tzif(data),
        "tzstr" => tzstr(data),
        "api" => api(data),
        _ => Err(format!("unknown target {name}")),
    }
}

/// Exercise every public query on a zone; nothing may panic. Work is bounded by `budget` transitions.
pub fn exercise_zone(zr: TimeZoneRef<'_>, budget: usize) {
    let mut instants: Vec<i64> = vec![i64::MIN, i64::MIN + 1, -1, 0, 1, i64::MAX - 1, i64::MAX, 951868800, -67768100567971200, 67767976233532799, 67767976233532800, -67768100567971201];
    let tr = zr.transitions();
    let pick: Vec<usize> = if tr.len() <= budget { (0..tr.len()).collect() } else { (0..budget / 2).chain(tr.len() - budget / 2..tr.len()).collect() };
    for i in pick {
        let t = tr[i].unix_leap_time();
        for d in [-1i64, 0, 1] {
            if let Some(x) = t.checked_add(d) {
                instants.push(x);
            }
        }
    }
    for l in zr.leap_seconds().iter().take(8) {
        for d in [-1i64, 0, 1] {
            if let Some(x) = l.unix_leap_time().checked_add(d) {
                instants.push(x);
            }
        }
    }
    let types = zr.local_time_types();
    for t in types.iter().take(300) {
        let _ = (t.time_zone_designation().len(), t.ut_offset(), t.is_dst());
        let _ = format!("{t:?}");
    }
    let _ = format!("{:?}", zr.extra_rule());
    let mut buf = [None; 3];
    for &u in &instants {
        let _ = zr.find_local_time_type(u);
        if let Ok(dt) = DateTime::from_timespec(u, 999_999_999, zr) {
            let _ = dt.to_string();
            let _ = (dt.week_day(), dt.year_day(), dt.total_nanoseconds());
            let _ = dt.project(TimeZoneRef::utc());
            // search the civil time shown at that instant, and the same fields again in the other types' clocks
            let f = (dt.year(), dt.month(), dt.month_day(), dt.hour(), dt.minute(), dt.second());
            if let Ok(l) = DateTime::find(f.0, f.1, f.2, f.3, f.4, f.5, 0, zr) {
                let _ = (l.unique(), l.earliest(), l.latest());
                for k in l.into_inner() {
                    if let FoundDateTimeKind::Normal(d) = k {
                        let _ = d.to_string();
                    }
                }
            }
            if let Ok(l) = DateTime::find_n(&mut buf, f.0, f.1, f.2, f.3, f.4, 60, 5, zr) {
                let _ = (l.unique(), l.earliest(), l.latest(), l.count(), l.is_exhaustive(), l.data().len());
            }
            // every accessor of the buffer-backed list for every buffer length from empty to roomy (a result count that exceeds, equals
            // or falls short of the length), on a buffer that still holds the previous search's entries
            for n in 0..=buf.len() {
                if let Ok(l) = DateTime::find_n(&mut buf[..n], f.0, f.1, f.2, f.3, f.4, f.5, 0, zr) {
                    let _ = (l.unique().map(|d| d.unix_time()), l.earliest().map(|d| d.unix_time()), l.latest().map(|d| d.unix_time()), l.count(), l.is_exhaustive(), l.data().len());
                    let _ = format!("{l:?}");
                }
            }
        }
        for t in types.iter().take(4) {
            if let Ok(d) = DateTime::from_timespec_and_local(u, 0, *t) {
                let _ = DateTime::find(d.year(), d.month(), d.month_day(), d.hour(), d.minute(), d.second(), 1, zr);
            }
        }
        if let Ok(ud) = UtcDateTime::from_timespec(u, 0) {
            let _ = ud.project(zr);
            let _ = ud.to_string();
        }
    }
    for y in [i32::MIN, i32::MIN + 1, i32::MIN + 2, i32::MIN + 3, i32::MAX - 3, i32::MAX - 2, i32::MAX - 1, i32::MAX] {
        for (mo, d) in [(1u8, 1u8), (1, 9), (6, 30), (12, 23), (12, 31)] {
            if let Ok(x) = UtcDateTime::new(y, mo, d, 12, 0, 0, 0) {
                let _ = zr.find_local_time_type(x.unix_time());
                let _ = DateTime::from_timespec(x.unix_time(), 0, zr);
            }
        }
    }
    // the clock-reading entry points: whatever the clock says, they return a value or an error, and errors render
    for r in [DateTime::now(zr).map(|d| d.to_string()), UtcDateTime::now().map(|d| d.to_string())] {
        if let Err(e) = r {
            let _ = format!("{e} {e:?}");
        }
    }
    for y in [i32::MIN, i32::MIN + 1, i32::MIN + 2, i32::MIN + 3, -1, 0, 1970, i32::MAX - 3, i32::MAX - 2, i32::MAX - 1, i32::MAX] {
        if let Err(e) = DateTime::find(y, 2, 30, 0, 0, 0, 0, zr) {
            let _ = format!("{e} {e:?}");
        }
        if let Err(e) = DateTime::find(y, 1, 1, 0, 0, 0, 0, zr) {
            let _ = format!("{e} {e:?}");
        }
        let _ = DateTime::find(y, 1, 1, 0, 0, 0, 0, zr);
        let _ = DateTime::find(y, 12, 31, 23, 59, 60, 999_999_999, zr);
        let _ = DateTime::find_n(&mut buf[..1], y, 6, 15, 12, 0, 0, 0, zr);
    }
    // invalid calendar fields through BOTH search entry points, every constructor taking fields, on this zone (tables index months
    // and days: a field that skips validation on one path panics or yields a nonsense value there; seeded change C07-r9m1).
    // "Invalid input yields an error value": an Ok here is reported like a panic.
    let ltt0 = zr.local_time_types()[0];
    for (mo, d, h, mi, s, ns) in [(0u8, 1u8, 0u8, 0u8, 0u8, 0u32), (13, 1, 0, 0, 0, 0), (255, 1, 0, 0, 0, 0), (1, 0, 0, 0, 0, 0), (1, 32, 0, 0, 0, 0), (2, 30, 0, 0, 0, 0), (4, 31, 0, 0, 0, 0), (12, 255, 0, 0, 0, 0), (6, 15, 24, 0, 0, 0), (6, 15, 255, 0, 0, 0), (6, 15, 0, 60, 0, 0), (6, 15, 0, 255, 0, 0), (6, 15, 0, 0, 61, 0), (6, 15, 0, 0, 255, 0), (6, 15, 0, 0, 0, 1_000_000_000), (6, 15, 0, 0, 0, u32::MAX), (0, 0, 255, 255, 255, u32::MAX)] {
        for y in [1969i32, 2021, i32::MIN, i32::MAX] {
            let a = DateTime::find(y, mo, d, h, mi, s, ns, zr).map(|l| l.into_inner().len());
            let b = DateTime::find_n(&mut buf, y, mo, d, h, mi, s, ns, zr).map(|l| l.count());
            let c = DateTime::find_n(&mut buf[..0], y, mo, d, h, mi, s, ns, zr).map(|l| l.count());
            let e = DateTime::new(y, mo, d, h, mi, s, ns, ltt0).map(|_| 1usize);
            let f = UtcDateTime::new(y, mo, d, h, mi, s, ns).map(|_| 1usize);
            for (what, r) in [("DateTime::find", a), ("DateTime::find_n", b), ("DateTime::find_n (empty buffer)", c), ("DateTime::new", e), ("UtcDateTime::new", f)] {
                if let Ok(k) = r {
                    panic!("VERIF-C07 invalid calendar fields ({y}, {mo}, {d}, {h}, {mi}, {s}, {ns}) were not refused by {what}: Ok with {k} result(s)");
                }
            }
        }
    }
}

/// bytes -> TimeZone::from_tz_data: bounded allocation, reference decoding (C08 oracle), then every query on the result.
pub fn tzif(data: &[u8]) -> Result<(), String> {
    let (res, peak, biggest) = alloccount::measure(|| TimeZone::from_tz_data(data));
    if alloccount::installed() {
        let limit = 16 * data.len() + 4096;
        if peak > limit || biggest > limit {
            return Err(format!("from_tz_data on {} bytes: peak heap {peak} bytes, biggest request {biggest} bytes, limit 16*len+4096 = {limit}", data.len()));
        }
    }
    c08::check_bytes(data, false, None, &mut Stats::new())?;
    match &res {
        Ok(z) => exercise_zone(z.as_ref(), 48),
        // rendering a diagnostic must not fail either (Display and Debug, and through the unified error type)
        Err(e) => {
            let _ = format!("{e} {e:?}");
        }
    }
    Ok(())
}

fn fail_read(_path: &str) -> Result<Vec<u8>, Box<dyn std::error::Error + Send + Sync + 'static>> {
    Err("no file system".into())
}

/// bytes -> TZ string through the settings path (if UTF-8) and as a v2 / v3 footer (also non-UTF-8); C09 oracle.
pub fn tzstr(data: &[u8]) -> Result<(), String> {
    if data.len() > 4096 {
        return Ok(());
    }
    c09::check_str(&c09::StrCase { s: data.to_vec() }, &mut Stats::new(), true)?;
    if let Ok(s) = std::str::from_utf8(data) {
        match TimeZoneSettings::new(&["/d"], fail_read).parse_posix_tz(s) {
            Ok(z) => exercise_zone(z.as_ref(), 8),
            Err(e) => {
                let _ = format!("{e} {e:?}");
            }
        }
    }
    for v in [2u8, 3] {
        match TimeZone::from_tz_data(&crate::tzif::footer_file(v, data)) {
            Ok(z) => exercise_zone(z.as_ref(), 8),
            Err(e) => {
                let _ = format!("{e} {e:?}");
            }
        }
    }
    Ok(())
}

fn ext_i64(u: &mut Unstructured) -> i64 {
    match u.int_in_range(0u8..=9).unwrap_or(0) {
        0 => i64::MIN,
        1 => i64::MAX,
        2 => i64::MIN + u.int_in_range(0i64..=4).unwrap_or(0),
        3 => i64::MAX - u.int_in_range(0i64..=4).unwrap_or(0),
        4 => u.int_in_range(-100_000i64..=100_000).unwrap_or(0),
        5 => 67767976233532799 + u.int_in_range(-3i64..=3).unwrap_or(0),
        6 => -67768100567971200 + u.int_in_range(-3i64..=3).unwrap_or(0),
        7 => u.int_in_range(-5_000_000_000i64..=5_000_000_000).unwrap_or(0),
        _ => u.arbitrary().unwrap_or(0),
    }
}

fn ext_i32(u: &mut Unstructured) -> i32 {
    match u.int_in_range(0u8..=6).unwrap_or(0) {
        0 => i32::MIN,
        1 => i32::MAX,
        2 => i32::MIN + 1,
        3 => u.int_in_range(-100_000i32..=100_000).unwrap_or(0),
        4 => u.int_in_range(-3i32..=3).unwrap_or(0),
        _ => u.arbitrary().unwrap_or(0),
    }
}

fn arb_ltt(u: &mut Unstructured) -> Option<LocalTimeType> {
    let names: [&[u8]; 6] = [b"UTC", b"ABCDEFG", b"+03", b"", b"AB", b"A,C"];
    let n = u.int_in_range(0usize..=6).unwrap_or(0);
    LocalTimeType::new(ext_i32(u), u.arbitrary().unwrap_or(false), if n == 6 { None } else { Some(names[n]) }).ok()
}

fn arb_day(u: &mut Unstructured) -> Option<RuleDay> {
    Some(match u.int_in_range(0u8..=2).unwrap_or(0) {
        0 => RuleDay::Julian1WithoutLeap(Julian1WithoutLeap::new(u.arbitrary().unwrap_or(1)).ok()?),
        1 => RuleDay::Julian0WithLeap(Julian0WithLeap::new(u.arbitrary().unwrap_or(0)).ok()?),
        _ => RuleDay::MonthWeekDay(MonthWeekDay::new(u.int_in_range(0u8..=13).unwrap_or(1), u.int_in_range(0u8..=6).unwrap_or(1), u.int_in_range(0u8..=7).unwrap_or(0)).ok()?),
    })
}

/// structured constructor arguments biased to integer extremes -> every constructor and query; owned/borrowed must agree.
pub fn api(data: &[u8]) -> Result<(), String> {
    let mut u = Unstructured::new(data);
    let nt = u.int_in_range(0usize..=6).unwrap_or(0);
    let mut types = vec![];
    for _ in 0..nt {
        if let Some(t) = arb_ltt(&mut u) {
            types.push(t);
        }
    }
    let ntr = u.int_in_range(0usize..=8).unwrap_or(0);
    let mut trans: Vec<Transition> = vec![];
    let sorted: bool = u.arbitrary().unwrap_or(true);
    for _ in 0..ntr {
        let idx = match u.int_in_range(0u8..=5).unwrap_or(0) {
            0 => usize::MAX,
            1 => types.len(),
            _ => u.int_in_range(0usize..=types.len().max(1) - 1).unwrap_or(0),
        };
        trans.push(Transition::new(ext_i64(&mut u), idx));
    }
    if sorted {
        trans.sort_by_key(|t| t.unix_leap_time());
        trans.dedup_by_key(|t| t.unix_leap_time());
    }
    let nl = u.int_in_range(0usize..=4).unwrap_or(0);
    let mut leaps = vec![];
    let mut lt = u.int_in_range(0i64..=100_000_000).unwrap_or(0);
    let mut c = 0i32;
    for _ in 0..nl {
        match u.int_in_range(0u8..=4).unwrap_or(0) {
            0 => leaps.push(LeapSecond::new(ext_i64(&mut u), ext_i32(&mut u))),
            _ => {
                c += if u.arbitrary().unwrap_or(true) { 1 } else { -1 };
                leaps.push(LeapSecond::new(lt, c));
                lt = lt.saturating_add(28 * 86400 - 1 + u.int_in_range(0i64..=3).unwrap_or(0) * u.int_in_range(0i64..=1_000_000).unwrap_or(0));
            }
        }
    }
    // sometimes place transitions exactly on / next to leap records (the two time scales meet there)
    if !leaps.is_empty() && u.arbitrary().unwrap_or(false) {
        let mut extra: Vec<Transition> = leaps.iter().take(3).map(|l: &LeapSecond| Transition::new(l.unix_leap_time().saturating_add(u.int_in_range(-1i64..=1).unwrap_or(0)), if types.is_empty() { 0 } else { u.int_in_range(0usize..=types.len() - 1).unwrap_or(0) })).collect();
        trans.append(&mut extra);
        trans.sort_by_key(|t| t.unix_leap_time());
        trans.dedup_by_key(|t| t.unix_leap_time());
    }
    let rule: Option<TransitionRule> = match u.int_in_range(0u8..=3).unwrap_or(0) {
        0 => None,
        1 => arb_ltt(&mut u).map(TransitionRule::Fixed),
        _ => (|| {
            let std = arb_ltt(&mut u)?;
            let dst = arb_ltt(&mut u)?;
            AlternateTime::new(std, dst, arb_day(&mut u)?, ext_i32(&mut u), arb_day(&mut u)?, ext_i32(&mut u)).ok().map(TransitionRule::Alternate)
        })(),
    };
    let borrowed = TimeZoneRef::new(&trans, &types, &leaps, &rule);
    let owned = TimeZone::new(trans.clone(), types.clone(), leaps.clone(), rule);
    match (&borrowed, &owned) {
        (Ok(_), Ok(_)) => {}
        (Err(a), Err(b)) if format!("{a:?}") == format!("{b:?}") => {}
        (a, b) => return Err(format!("owned and borrowed constructors disagree: {:?} vs {:?}", a.as_ref().map(|_| ()), b.as_ref().map(|_| ()))),
    }
    if let Ok(zr) = borrowed {
        exercise_zone(zr, 16);
    }
    // date-time constructors with arbitrary arguments
    for _ in 0..4 {
        let (y, mo, d, h, mi, s, ns): (i32, u8, u8, u8, u8, u8, u32) = (ext_i32(&mut u), u.arbitrary().unwrap_or(1), u.arbitrary().unwrap_or(1), u.arbitrary().unwrap_or(0), u.arbitrary().unwrap_or(0), u.arbitrary().unwrap_or(0), u.arbitrary().unwrap_or(0));
        if let Ok(x) = UtcDateTime::new(y, mo, d, h, mi, s, ns) {
            let _ = (x.unix_time(), x.week_day(), x.year_day(), x.total_nanoseconds(), x.to_string());
        }
        if let Some(t) = types.first() {
            if let Ok(x) = DateTime::new(y, mo, d, h, mi, s, ns, *t) {
                let _ = (x.week_day(), x.year_day(), x.total_nanoseconds(), x.to_string());
            }
        }
        let t = ext_i64(&mut u);
        let _ = UtcDateTime::from_timespec(t, ns).map(|x| x.to_string());
        let n: i128 = u.arbitrary().unwrap_or(0);
        let _ = UtcDateTime::from_total_nanoseconds(n);
        let _ = UtcDateTime::from_total_nanoseconds(t as i128 * 1_000_000_000 + ns as i128);
        if let Some(ty) = types.last() {
            let _ = DateTime::from_timespec_and_local(t, ns, *ty).map(|x| x.to_string());
            let _ = DateTime::from_total_nanoseconds_and_local(n, *ty);
        }
    }
    Ok(())
}
