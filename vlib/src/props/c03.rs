//! C03 — localtime (table): type at an instant is that of the latest transition <= it.
use crate::cal;
use crate::dtinv::check_dt;
use crate::gens::{self, ZoneCfg};
use crate::model::{MDay, MLtt, MRule, MTrailer, MZone};
use crate::ozone::{Fwd, TypeRef, ZoneModel};
use crate::run::*;
use proptest::prelude::*;
use serde::{Deserialize, Serialize};
use serde_json::{json, Value};
use tz::timezone::{TimeZone, TimeZoneRef, TransitionRule};
use tz::{DateTime, TzError};

#[derive(Debug, Clone, Serialize, Deserialize)]
pub struct LookupCase {
    pub zone: MZone,
    /// explicit instants; empty = derive (every transition -1/0/+1 on both scales, ends, extremes) + `seeds`
    pub us: Vec<i64>,
    pub seeds: Vec<i64>,
}

fn derive_us(z: &MZone, model: &ZoneModel, seeds: &[i64]) -> Vec<i64> {
    let mut v: Vec<i64> = vec![i64::MIN, i64::MIN + 1, i64::MAX, i64::MAX - 1, 0, cal::min_unix(), cal::max_unix(), cal::min_unix() - 1, cal::max_unix() + 1];
    v.extend_from_slice(seeds);
    // instants governed by a trailing DST rule: its start/end instants of the years following the table, -30..+1 s (a leap table shifts
    // the two time scales by up to its correction: the rule must still be read on UTC instants)
    if let (MTrailer::Alt(r), Some(&(t_last, _))) = (&z.trailer, z.trans.last()) {
        if t_last > cal::min_unix() && t_last < cal::max_unix() - 400_000_000 {
            let y = cal::civil_from_unix(t_last as i128).y;
            for yy in [y + 1, y + 2, y + 7] {
                for base in [r.s(yy), r.e(yy)] {
                    for d in [-30i64, -28, -27, -26, -3, -2, -1, 0, 1] {
                        v.push(base + d);
                    }
                }
            }
        }
    }
    for (i, &(t, _)) in z.trans.iter().enumerate() {
        for d in -1..=1i64 {
            if let Some(x) = t.checked_add(d) {
                v.push(x);
            }
        }
        if !z.leaps.is_empty() {
            if let Some(u) = model.switch_instant(i) {
                for d in -1..=1i64 {
                    if let Some(x) = u.checked_add(d) {
                        v.push(x);
                    }
                }
            }
        }
    }
    v
}

pub fn check_lookup(c: &LookupCase, st: &mut Stats) -> Result<(), String> {
    let z = &c.zone;
    let parts = z.parts().map_err(|e| format!("component refused: {e:?}"))?;
    let zr = TimeZoneRef::new(&parts.transitions, &parts.types, &parts.leaps, &parts.rule).map_err(|e| format!("valid-by-construction zone refused: {e:?} ({z:?})"))?;
    let owned = TimeZone::new(parts.transitions.clone(), parts.types.clone(), parts.leaps.clone(), parts.rule).map_err(|e| format!("owned constructor refused: {e:?}"))?;
    let model = ZoneModel::new(z);
    let us = if c.us.is_empty() { derive_us(z, &model, &c.seeds) } else { c.us.clone() };
    let n = z.trans.len();
    for &u in &us {
        st.eval(1);
        let exp = model.forward(u);
        let got = zr.find_local_time_type(u);
        let got_owned = owned.find_local_time_type(u);
        // owned and borrowed lookups agree
        match (&got, &got_owned) {
            (Ok(a), Ok(b)) if a == b => {}
            (Err(a), Err(b)) if format!("{a:?}") == format!("{b:?}") => {}
            (a, b) => return Err(format!("owned and borrowed lookups differ at u={u}: {a:?} vs {b:?}")),
        }
        let near = z.trans.iter().any(|&(t, _)| (t as i128 - u as i128).abs() <= 1 + z.leaps.len() as i128);
        if near && n >= 2 {
            st.nontrivial(&(z, u));
            st.class("lookup_within_1s_of_a_transition");
        }
        let want_ltt: Option<&MLtt> = match exp {
            Fwd::Type(t) => {
                let l = match &got {
                    Ok(l) => *l,
                    Err(e) => return Err(format!("zone {z:?}: at u={u} expected {t:?} ({:?}), got Err({e:?})", model.ltt(t))),
                };
                // identity of the returned slot (stronger than value equality)
                let expected_ptr: *const tz::LocalTimeType = match (t, &parts.rule) {
                    (TypeRef::Slot(k), _) => &parts.types[k],
                    (TypeRef::Fixed, Some(TransitionRule::Fixed(f))) => f,
                    (TypeRef::RuleStd, Some(TransitionRule::Alternate(a))) => a.std(),
                    (TypeRef::RuleDst, Some(TransitionRule::Alternate(a))) => a.dst(),
                    _ => return Err("model/trailer mismatch".into()),
                };
                if std::ptr::eq(l, expected_ptr) {
                    st.class("returned_reference_is_the_expected_slot");
                }
                // the property speaks about the type (offset, flag, designation), not about which of several equal slots is returned
                if !model.ltt(t).same_as(l) {
                    return Err(format!(
                        "zone with {n} transitions {:?}..., leaps {:?}: at u={u} expected {t:?} = {:?}, got another slot holding offset {} dst {} '{}'",
                        &z.trans[..n.min(6)],
                        z.leaps,
                        model.ltt(t),
                        l.ut_offset(),
                        l.is_dst(),
                        l.time_zone_designation()
                    ));
                }
                match t {
                    TypeRef::Slot(_) => st.class("table_slot"),
                    TypeRef::Fixed => st.class("trailer_fixed"),
                    _ => st.class("trailer_rule"),
                }
                Some(model.ltt(t))
            }
            Fwd::NoType => {
                if !matches!(got, Err(TzError::NoAvailableLocalTimeType)) {
                    return Err(format!("zone {z:?}: at u={u} (at/after the last transition, no trailer) expected NoAvailableLocalTimeType, got {got:?}"));
                }
                st.class("no_type_after_last");
                None
            }
            Fwd::OutOfRange => {
                if !matches!(got, Err(TzError::OutOfRange)) {
                    return Err(format!("zone {z:?}: at u={u} expected Err(OutOfRange), got {got:?}"));
                }
                st.class("out_of_range");
                None
            }
            Fwd::Unspecified => {
                st.class("unspecified");
                None
            }
        };
        // the resulting local date-time is the UTC calendar date of (instant + offset)
        let ns = (u as u32) % 1_000_000_000; // always a valid nanosecond value: from_timespec's treatment of larger ones is not part of C03
        let dt = DateTime::from_timespec(u, ns, zr);
        if let Some(w) = want_ltt {
            let local = u as i128 + w.off as i128;
            if local >= cal::min_unix() as i128 && local <= cal::max_unix() as i128 {
                let dt = dt.map_err(|e| format!("at u={u} offset {}: from_timespec refused ({e:?}) although instant+offset is representable", w.off))?;
                let cv = cal::civil_from_unix(local);
                if (dt.year() as i64, dt.month() as i64, dt.month_day() as i64, dt.hour() as i64, dt.minute() as i64, dt.second() as i64) != (cv.y, cv.mo, cv.d, cv.h, cv.mi, cv.s) || dt.unix_time() != u || dt.nanoseconds() != ns || !w.same_as(dt.local_time_type()) {
                    return Err(format!("at u={u} offset {}: from_timespec gives {dt} (unix {}), expected {cv:?}", w.off, dt.unix_time()));
                }
                check_dt(&dt)?;
                // side entrances to the same lookup: the nanosecond-count constructor, and projections of the same instant held by a
                // UTC value and by a value whose type has the SAME offset but another flag / designation (the answer is the zone's type)
                let same = |name: &str, r: Result<DateTime, TzError>| -> Result<(), String> {
                    let o = r.map_err(|e| format!("at u={u} ns={ns}: {name} failed ({e:?}) where from_timespec succeeds"))?;
                    if (o.year(), o.month(), o.month_day(), o.hour(), o.minute(), o.second(), o.unix_time(), o.nanoseconds()) != (dt.year(), dt.month(), dt.month_day(), dt.hour(), dt.minute(), dt.second(), u, ns) || !w.same_as(o.local_time_type()) {
                        return Err(format!("zone {z:?}: at u={u} ns={ns}: {name} gives {o} with type {:?}, from_timespec gives {dt} with type {:?}", o.local_time_type(), dt.local_time_type()));
                    }
                    Ok(())
                };
                same("DateTime::from_total_nanoseconds", DateTime::from_total_nanoseconds(u as i128 * 1_000_000_000 + ns as i128, zr))?;
                if let Ok(utc) = tz::UtcDateTime::from_timespec(u, ns) {
                    same("UtcDateTime::project", utc.project(zr))?;
                }
                if let Ok(other) = tz::LocalTimeType::new(w.off, !w.dst, Some(b"QQQ")).map_err(|_| ()).and_then(|l| DateTime::from_timespec_and_local(u, ns, l).map_err(|_| ())) {
                    same("DateTime::project from a type with the same offset", other.project(zr))?;
                }
                st.class("side_entrances_compared");
            } else if !matches!(dt, Err(TzError::OutOfRange)) {
                return Err(format!("at u={u} offset {}: instant+offset leaves the supported range, expected Err(OutOfRange), got {dt:?}", w.off));
            }
        } else if exp != Fwd::Unspecified && dt.is_ok() {
            return Err(format!("at u={u}: lookup has no type but from_timespec returned {dt:?}"));
        }
    }
    // The same zone as a user usually holds it: decoded from a TZif file (written by the independent RFC 8536 writer — version 1 with
    // 32-bit times when the zone fits, and version 2 / 3 with 64-bit times). The lookups on the decoded zone must give the answers
    // just validated against the model: a reader that moves a transition time (seeded changes C03-r13bm1: 32-bit times zero-extended;
    // C03-r13bm2: times clamped from below) breaks "the type of the latest transition at or before that instant" for every zone read
    // from a file while every constructor-built zone keeps working.
    if n <= 4096 && !z.types.is_empty() {
        let ent: Vec<u32> = c.seeds.iter().flat_map(|&x| [x as u32, (x >> 32) as u32]).chain([n as u32, 0x9e37_79b9]).collect();
        for version in [1u8, 2 + (ent[0] % 2) as u8] {
            let fc = crate::props::c08::FileCase { zone: z.clone(), version, ent: ent.clone(), defect: crate::props::c08::Defect::None };
            let Some(fm) = crate::props::c08::file_of(&fc) else {
                st.class("not_representable_as_file");
                continue;
            };
            let bytes = crate::tzif::write(&fm);
            let decoded = match TimeZone::from_tz_data(&bytes) {
                Ok(d) => d,
                Err(e) => return Err(format!("zone {z:?} written as a well-formed TZif v{version} file was refused ({e:?}): no lookup is possible on it")),
            };
            for &u in &us {
                st.eval(1);
                let a = zr.find_local_time_type(u);
                let b = decoded.find_local_time_type(u);
                let agree = match (&a, &b) {
                    (Ok(x), Ok(y)) => x.ut_offset() == y.ut_offset() && x.is_dst() == y.is_dst() && x.time_zone_designation() == y.time_zone_designation(),
                    (Err(x), Err(y)) => format!("{x:?}") == format!("{y:?}"),
                    _ => false,
                };
                // designation-less types cannot be spelled in a file (the writer gives them a name): compare offset and flag there
                let agree = agree || matches!((&a, &b), (Ok(x), Ok(y)) if x.ut_offset() == y.ut_offset() && x.is_dst() == y.is_dst() && x.time_zone_designation().is_empty());
                if !agree && model.forward(u) != Fwd::Unspecified {
                    return Err(format!("zone {z:?}: at u={u} the zone decoded from its TZif v{version} file answers {b:?}, the zone itself (and the model) {a:?}"));
                }
            }
            st.class(if version == 1 { "also_through_a_v1_file" } else { "also_through_a_v2_or_v3_file" });
        }
    }
    if st.wants_sample("zone") {
        st.sample("zone", || json!({"transitions": n, "types": z.types.len(), "leaps": z.leaps.len(), "trailer": format!("{:?}", z.trailer).chars().take(80).collect::<String>(), "lookups": us.len()}));
    }
    Ok(())
}

pub fn replay(kind: &str, case: &Value) -> Result<(), String> {
    if kind == "clock" {
        return crate::clock::check_clock(&serde_json::from_value(case.clone()).map_err(|e| e.to_string())?, true, false, &mut Stats::new());
    }
    check_lookup(&serde_json::from_value(case.clone()).map_err(|e| e.to_string())?, &mut Stats::new())
}

fn table_zone(n: usize, trailer_kind: u8, step: i64, t0: i64) -> MZone {
    let types: Vec<MLtt> = vec![MLtt::new(0, false, Some("LMT")), MLtt::new(3600, false, Some("STD")), MLtt::new(7200, true, Some("DST")), MLtt::new(3600, false, Some("STD")), MLtt::new(3600, true, Some("STD")), MLtt::new(-1800, false, None)];
    let rule = MRule { std: types[1].clone(), dst: types[2].clone(), start: MDay::M(3, 5, 0), start_time: 7200, end: MDay::M(10, 5, 0), end_time: 10800 };
    let trailer = match trailer_kind {
        0 => MTrailer::None,
        1 => MTrailer::Fixed(types[5].clone()),
        _ => MTrailer::Alt(rule.clone()),
    };
    let mut trans: Vec<(i64, usize)> = (0..n).map(|k| (t0 + k as i64 * step, (k * 7 + 3) % 6)).collect();
    if let Some(last) = trans.last_mut() {
        match trailer_kind {
            1 => last.1 = 5,
            2 => {
                let cls = crate::orule::classify(&rule);
                last.1 = if crate::orule::is_dst(&rule, cls, last.0) { 2 } else { 1 };
            }
            _ => {}
        }
    }
    MZone { trans, types, leaps: vec![], trailer }
}

pub fn run(ctx: &Ctx) -> Outcome {
    let mut out = Outcome::new(
        "(a) BOUNDED-EXHAUSTIVE: every table length n in 0..=256 (thorough 0..=600) x every query rank (T_k-1, T_k, T_k+1 for every k, far below/above, extremes) x 3 trailers (none, fixed, DST rule), with value-equal types in different slots; \
         (b) proptest arb_zone: 0..24 transitions anywhere in i64 (gaps 1 s .. 2^62), repeated/no-op type indices, +-leap tables, all 6 shapes, queried at every transition -1/0/+1 on both time scales, table ends, i64 extremes and random instants; (c) big tables (1e3..1e5 entries) at random ranks; (d) find_current_local_time_type (owned and borrowed) on zones whose table / DST rule switches within seconds of the clock reading, answer = the model's for some instant of the bracket [clock before, clock after]. \
         Oracle: linear-scan timeline model (O-zone with O-leap switch instants). The returned type must equal the expected slot's type (offset, flag, designation; pointer identity is only counted), errors by kind; from_timespec fields = O-cal(instant + offset). Non-trivial: query within 1 s (+ leap count) of a transition of a table with >= 2 entries.",
    );
    out.assumptions = vec!["within 2^32 s of the i64 limits in a zone with a leap table only 'no panic' is asserted (an intermediate sum of the scan may overflow)".into(), "rule answers for 'overlapping' rules are unspecified".into()];
    // (a)
    let nmax = ctx.tier.pick(256usize, 600usize);
    let rs = par_shards((nmax as u64 + 1) * 3, |shard, st| {
        let n = (shard / 3) as usize;
        let kind = (shard % 3) as u8;
        let z = table_zone(n, kind, 10, 1_000_000_000);
        let c = LookupCase { zone: z, us: vec![], seeds: vec![5, 999_999_995, 1_000_000_000 + 10 * n as i64 + 5000] };
        check_enum("lookup", &c, st, |c, st| {
            let before = st.evaluations;
            let r = check_lookup(c, st);
            st.nontrivial_exact((st.evaluations - before).min(3 * n as u64));
            r
        })
    });
    out.absorb_all(rs);
    if out.failure.is_some() {
        return out;
    }
    out.extra.insert("exhaustive_note".into(), json!(format!("the binary search depends only on (table length, rank of the query): complete for lengths 0..={nmax} x all ranks x 3 trailers; everything else sampled")));
    // (b)
    let strat = (prop_oneof![4 => gens::arb_zone(ZoneCfg { max_trans: 24, leaps: true, wide_times: true }), 1 => gens::arb_aligned_zone(), 2 => gens::arb_leap_adjacent_zone()], proptest::collection::vec(gens::arb_unix_time(), 0..6)).prop_map(|(zone, seeds)| LookupCase { zone, us: vec![], seeds });
    let cases = ctx.tier.pick(12_000u32, 150_000u32);
    let rs = par_shards(16, |shard, st| pt_shard(ctx, "lookup", shard, cases, &strat, st, check_lookup));
    out.absorb_all(rs);
    if out.failure.is_some() {
        return out;
    }
    // more local time types than a one-byte index can address (the constructors take usize indices)
    let rs = par_shards(1, |_, st| {
        for n in [257usize, 300, 600] {
            let types: Vec<MLtt> = (0..n).map(|k| MLtt::new(k as i32 * 7 - 900, k % 2 == 1, Some(["AAA", "BBBB", "CC-03"][k % 3]))).collect();
            let trans: Vec<(i64, usize)> = (0..n).map(|k| (k as i64 * 100, n - 1 - k)).collect();
            let c = LookupCase { zone: MZone { trans, types, leaps: vec![], trailer: MTrailer::None }, us: vec![], seeds: vec![] };
            check_enum("lookup", &c, st, check_lookup)?;
            st.class("zones_with_more_than_256_types");
        }
        Ok(())
    });
    out.absorb_all(rs);
    if out.failure.is_some() {
        return out;
    }
    // tables ending at the very top (and starting at the very bottom) of the i64 range, with and without a trailing fixed rule
    let rs = par_shards(1, |_, st| {
        let a = MLtt::new(0, false, Some("AAA"));
        let b = MLtt::new(3600, true, Some("BBB"));
        for trans in [vec![(i64::MAX, 1usize)], vec![(0, 1), (i64::MAX, 0)], vec![(i64::MAX - 1, 1), (i64::MAX, 0)], vec![(i64::MIN + 1, 1), (0, 0), (i64::MAX, 1)], vec![(i64::MAX - 2, 1), (i64::MAX - 1, 0)]] {
            for fixed in [false, true] {
                let last = trans.last().unwrap().1;
                let types = vec![a.clone(), b.clone()];
                let trailer = if fixed { MTrailer::Fixed(types[last].clone()) } else { MTrailer::None };
                let c = LookupCase { zone: MZone { trans: trans.clone(), types, leaps: vec![], trailer }, us: vec![i64::MAX, i64::MAX - 1, i64::MAX - 2, i64::MIN, i64::MIN + 1, 0], seeds: vec![] };
                check_enum("lookup", &c, st, check_lookup)?;
                st.class("tables_ending_at_the_top_of_the_i64_range");
            }
        }
        Ok(())
    });
    out.absorb_all(rs);
    if out.failure.is_some() {
        return out;
    }
    // the clock-reading side entrance: find_current_local_time_type (owned and borrowed) on zones that switch around "now"; the answer
    // must be the model's for some instant of the clock bracket read by the harness
    let strat_c = crate::clock::arb_clock_case();
    let rs = par_shards(8, |shard, st| pt_shard(ctx, "clock", 700 + shard, ctx.tier.pick(4_000u32, 60_000u32), &strat_c, st, |c, st| crate::clock::check_clock(c, true, false, st)));
    out.absorb_all(rs);
    if out.failure.is_some() {
        return out;
    }
    // (c) big tables
    let sizes: Vec<usize> = ctx.tier.pick(vec![1000, 4097, 65536], vec![1000, 4097, 65536, 100_000, 262_145]);
    let szr = &sizes;
    let rs = par_shards(sizes.len() as u64 * 3, |shard, st| {
        let n = szr[(shard / 3) as usize];
        let kind = (shard % 3) as u8;
        let z = table_zone(n, kind, 3, -1_000_000);
        let mut dr = Drawer::new(ctx, "big", shard);
        let mut us = vec![];
        for _ in 0..ctx.tier.pick(3000, 30000) {
            let k = dr.draw(&(0..n)) as i64;
            let d = dr.draw(&(-1i64..=1));
            us.push(-1_000_000 + 3 * k + d);
        }
        let c = LookupCase { zone: z, us, seeds: vec![] };
        match check_lookup(&c, st) {
            Ok(()) => Ok(()),
            Err(m) => Err(Failure::new("lookup-big", m, json!({"n": n, "trailer_kind": kind}))),
        }
    });
    out.absorb_all(rs);
    out
}
