//! C05 — see search.rs (shared generator and model for C05 / C06 / C14 / C17; this module selects the assertions of C05).
use crate::run::*;
use crate::search::{self, Focus};
use serde_json::Value;

pub fn run(ctx: &Ctx) -> Outcome {
    search::run_search(ctx, Focus::C05, RULE)
}

pub fn replay(_kind: &str, case: &Value) -> Result<(), String> {
    search::replay_search(Focus::C05, case)
}

const RULE: &str = "Valid zones of all shapes (table only, rule only, table+fixed, table+DST rule; +-leap tables; offsets up to +-i32; transition gaps from 1 s to years; dense zones whose transitions are closer together than the offset jumps) x local times derived from the model's event list (every event shown on the clock before/after it +- {0,1,2 s, 1 min, 1 h, 2 h, up to 25 h}), New Year on both rule clocks, random civil times, second 60. \
Oracles: (i) O-zone timeline model: the valid results as (instant, type) in order; (ii) round trip through the crate's own forward lookup: every result converts back to the searched fields and type, every instant L - o (o over all offsets of the zone) whose forward lookup yields offset o is present exactly once; unique() iff exactly one valid instant and no gap. \
Non-trivial: at least two valid instants, or the local time within 1 s of the interval spanned by an event's two clocks.";
