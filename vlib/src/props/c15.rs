//! C15 — thread safety by construction: no global or interior state, any interleaving.
//! Observable half: generated programs (op sequences over shared zones) run (1) sequentially, (2) in reversed and permuted order,
//! (3) by N threads sharing the values by reference with barriers and yields, (4) in a child process under perturbed ambient state
//! (TZ, TZDIR, LANG, cwd, and the virtual zoneinfo directories made real on disk with other contents). Every op's digest must equal its digest in the plain sequential run.
use crate::gens::{self, Fields, ZoneCfg};
use crate::model::{MTrailer, MZone};
use crate::props::c08::zoneinfo_files;
use crate::run::*;
use proptest::prelude::*;
use serde::{Deserialize, Serialize};
use serde_json::{json, Value};
use std::cell::Cell;
use std::collections::BTreeMap;
use std::hash::{Hash, Hasher};
use std::sync::{Barrier, OnceLock};
use tz::timezone::{TimeZone, TimeZoneSettings};
use tz::{DateTime, UtcDateTime};

#[derive(Debug, Clone, Serialize, Deserialize, Hash)]
pub enum Op {
    ParseFile { f: u8 },
    /// resolve a TZ value through settings with virtual file system `vfs`
    Resolve { s: u8, vfs: u8 },
    ParseLocal { vfs: u8 },
    Lookup { z: u8, t: u8 },
    Search { z: u8, t: u8, via: u8 },
    SearchN { z: u8, t: u8, via: u8, n: u8 },
    Project { z1: u8, z2: u8, t: u8 },
    Format { z: u8, t: u8 },
    Utc { t: u8 },
    /// ambient entry points (real /etc/localtime, default directories)
    Ambient { k: u8 },
    /// a relative name resolved through settings that read the REAL file system under directories "/", "//" and a scratch directory
    /// with a trailing slash: every candidate path is absolute, so the answer cannot depend on the process's working directory
    RealFs { k: u8 },
}

#[derive(Debug, Clone, Serialize, Deserialize, Hash)]
pub struct Program {
    pub zones: Vec<MZone>,
    /// small pool of timestamps reused across zones (a cache keyed on too little would collide)
    pub times: Vec<i64>,
    pub ops: Vec<Op>,
    pub perm_seed: u64,
}

const STRINGS: [&str; 10] = ["Zone/../Zone/A", "./Zone/B", "UTC0", "EST5EDT,M3.2.0,M11.1.0", "Zone/A", "Zone/B", ":Zone/A", "localtime", "CET-1CEST,M3.5.0,M10.5.0/3", " AAA3 "];

thread_local! {
    static CUR_VFS: Cell<usize> = const { Cell::new(0) };
}

/// The virtual directories carry names under the scratch area, so that the child process can make them REAL (with different
/// contents) on disk: any consultation of the real file system next to the injected read function then changes a digest.
fn vdir(k: usize) -> &'static str {
    static D: OnceLock<[String; 2]> = OnceLock::new();
    let d = D.get_or_init(|| {
        let base = crate::run::verif_dir().join("build/c15fs");
        [base.join("d1").display().to_string(), base.join("d2").display().to_string()]
    });
    Box::leak(d[k].clone().into_boxed_str())
}

/// Child mode only: create the virtual directories and files for real (with other contents).
pub fn make_real_tree() {
    for d in [vdir(0), vdir(1)] {
        let _ = std::fs::create_dir_all(format!("{d}/Zone"));
        for f in ["Zone/A", "Zone/B", "UTC0"] {
            let _ = std::fs::write(format!("{d}/{f}"), b"not the virtual content");
        }
    }
}
pub fn remove_real_tree() {
    let _ = std::fs::remove_dir_all(crate::run::verif_dir().join("build/c15fs"));
}

fn vfs_tables() -> &'static Vec<(Vec<&'static str>, BTreeMap<String, Vec<u8>>)> {
    static T: OnceLock<Vec<(Vec<&'static str>, BTreeMap<String, Vec<u8>>)>> = OnceLock::new();
    T.get_or_init(|| {
        let (d1, d2) = (vdir(0), vdir(1));
        let zf = |off: i32| {
            let b = crate::tzif::Block { times: vec![], type_idx: vec![], ttinfos: vec![(off, 0, 0)], chars: b"VFS\0".to_vec(), leaps: vec![], isstd: vec![], isut: vec![] };
            crate::tzif::write(&crate::tzif::FileModel { version: 2, v1: b.clone(), v2: Some(b), footer: vec![] })
        };
        let mut v = vec![];
        // same names, different contents / directory orders: a cache keyed by the TZ string alone would mix them up
        for k in 0..4i32 {
            let mut m = BTreeMap::new();
            m.insert(format!("{d1}/Zone/A"), zf(3600 * (k + 1)));
            m.insert(format!("{d1}/Zone/../Zone/A"), zf(3600 * (k + 1) + 60));
            m.insert(format!("{d2}/./Zone/B"), zf(77 * (k + 1)));
            m.insert(format!("{d2}/Zone/A"), zf(-3600 * (k + 1)));
            // Zone/B exists only in the directory that is searched last: a lookup served by a later directory
            m.insert(if k < 2 { format!("{d2}/Zone/B") } else { format!("{d1}/Zone/B") }, zf(1800 * (k + 1)));
            m.insert("/etc/localtime".to_string(), zf(900 * (k + 1)));
            if k % 2 == 1 {
                m.insert(format!("{d2}/UTC0"), zf(60 * k));
            }
            let dirs: Vec<&'static str> = if k < 2 { vec![d1, d2] } else { vec![d2, d1] };
            v.push((dirs, m));
        }
        v
    })
}

fn vfs_read(path: &str) -> Result<Vec<u8>, Box<dyn std::error::Error + Send + Sync + 'static>> {
    let k = CUR_VFS.with(|c| c.get());
    vfs_tables()[k].1.get(path).cloned().ok_or_else(|| "not found".into())
}

fn real_files() -> &'static Vec<Vec<u8>> {
    static F: OnceLock<Vec<Vec<u8>>> = OnceLock::new();
    F.get_or_init(|| {
        let all = zoneinfo_files();
        let mut v = vec![];
        for (i, p) in all.iter().enumerate() {
            if i % 97 == 0 {
                if let Ok(b) = std::fs::read(p) {
                    v.push(b);
                }
            }
        }
        if v.is_empty() {
            v.push(crate::tzif::footer_file(2, b"UTC0"));
        }
        v
    })
}

fn footer_family_files() -> &'static Vec<Vec<u8>> {
    static F: OnceLock<Vec<Vec<u8>>> = OnceLock::new();
    F.get_or_init(|| {
        let mut v = vec![];
        for footer in [&b"IST-2IDT,M3.4.4/26,M10.5.0"[..], b"EST5EDT,M3.2.0,M11.1.0", b"<-03>3<-02>,M3.5.0/-2,M10.5.0/-1"] {
            for version in [3u8, 2, 4] {
                v.push(crate::tzif::footer_file(version, footer));
            }
        }
        // files with several defects of different kinds at once: which diagnostic is reported must be a function of the bytes alone
        for rot in 0..4usize {
            let mut ttinfos = vec![(0i32, 2u8, 0u8), (i32::MIN, 0, 0), (0, 0, 200), (0, 0, 4), (3600, 1, 0)];
            ttinfos.rotate_left(rot);
            let b = crate::tzif::Block { times: vec![], type_idx: vec![], ttinfos, chars: b"UTC\0a!b\0".to_vec(), leaps: vec![], isstd: vec![], isut: vec![] };
            v.push(crate::tzif::write(&crate::tzif::FileModel { version: 2, v1: b.clone(), v2: Some(b), footer: b"UTC0".to_vec() }));
        }
        v
    })
}

/// Zones sharing the rule's days and times but not the offsets (a memo keyed on too little would serve one zone's instants to the next).
fn us_family() -> Vec<MZone> {
    use crate::model::{MDay, MLtt, MRule, MTrailer};
    (0..4)
        .map(|k| {
            let off = -18_000 - 3_600 * k;
            let std = MLtt::new(off, false, Some(["EST", "CST", "MST", "PST"][k as usize]));
            let dst = MLtt::new(off + 3_600, true, Some(["EDT", "CDT", "MDT", "PDT"][k as usize]));
            let rule = MRule { std: std.clone(), dst: dst.clone(), start: MDay::M(3, 2, 0), start_time: 7_200, end: MDay::M(11, 1, 0), end_time: 7_200 };
            MZone { trans: vec![], types: vec![std, dst], leaps: vec![], trailer: MTrailer::Alt(rule) }
        })
        .collect()
}

fn h(x: impl std::fmt::Debug) -> u64 {
    let mut s = std::collections::hash_map::DefaultHasher::new();
    format!("{x:?}").hash(&mut s);
    s.finish()
}

fn fields_at(t: i64, off: i32) -> Fields {
    let c = crate::cal::civil_from_unix((t as i128 + off as i128).clamp(crate::cal::min_unix() as i128, crate::cal::max_unix() as i128));
    Fields::from_civil(&c, (t as u32) % 1_000_000_000).unwrap()
}

/// Execute one op against the shared values; returns a digest of everything observable about its result.
fn shared_settings() -> &'static Vec<TimeZoneSettings<'static>> {
    static S: OnceLock<Vec<TimeZoneSettings<'static>>> = OnceLock::new();
    S.get_or_init(|| vfs_tables().iter().map(|t| TimeZoneSettings::new(&t.0, vfs_read)).collect())
}

fn exec(op: &Op, zones: &[TimeZone], times: &[i64]) -> u64 {
    let z = |i: u8| &zones[i as usize % zones.len()];
    let t = |i: u8| times[i as usize % times.len()];
    match op {
        Op::ParseFile { f } if *f >= 240 => {
            // synthetic files whose footers are byte-identical but sit in files of different versions (the footer's meaning depends on it)
            let files = footer_family_files();
            h(TimeZone::from_tz_data(&files[(*f as usize - 240) % files.len()]))
        }
        Op::ParseFile { f } => {
            let files = real_files();
            h(TimeZone::from_tz_data(&files[*f as usize % files.len()]))
        }
        Op::Resolve { s, vfs } => {
            let k = *vfs as usize % vfs_tables().len();
            CUR_VFS.with(|c| c.set(k));
            // the settings value is shared by every operation and thread of the process (state hidden inside it would show as order dependence)
            let settings = &shared_settings()[k];
            h(settings.parse_posix_tz(STRINGS[*s as usize % STRINGS.len()]).map_err(|e| format!("{e:?}")))
        }
        Op::ParseLocal { vfs } => {
            let k = *vfs as usize % vfs_tables().len();
            CUR_VFS.with(|c| c.set(k));
            let settings = &shared_settings()[k];
            h(settings.parse_local().map_err(|e| format!("{e:?}")))
        }
        Op::Lookup { z: zi, t: ti } => h(z(*zi).find_local_time_type(t(*ti))),
        Op::Search { z: zi, t: ti, via } => {
            let zz = z(*zi);
            let types = zz.as_ref().local_time_types();
            let f = fields_at(t(*ti), types[*via as usize % types.len()].ut_offset());
            h(DateTime::find(f.y, f.mo, f.d, f.h, f.mi, f.s, f.ns, zz.as_ref()))
        }
        Op::SearchN { z: zi, t: ti, via, n } => {
            let zz = z(*zi);
            let types = zz.as_ref().local_time_types();
            let f = fields_at(t(*ti), types[*via as usize % types.len()].ut_offset());
            let mut buf = vec![None; *n as usize % 4];
            let r = DateTime::find_n(&mut buf, f.y, f.mo, f.d, f.h, f.mi, f.s, f.ns, zz.as_ref()).map(|l| (l.count(), l.is_exhaustive(), format!("{:?}", l.data()), l.unique(), l.earliest(), l.latest()));
            h(r)
        }
        Op::Project { z1, z2, t: ti } => h(DateTime::from_timespec(t(*ti), 7, z(*z1).as_ref()).and_then(|d| d.project(z(*z2).as_ref())).map(|d| (format!("{d:?}"), d.to_string()))),
        Op::Format { z: zi, t: ti } => h(DateTime::from_timespec(t(*ti), 123, z(*zi).as_ref()).map(|d| d.to_string())),
        Op::Utc { t: ti } => h(UtcDateTime::from_timespec(t(*ti), 5).map(|d| (d.to_string(), d.week_day(), d.year_day(), d.unix_time()))),
        Op::RealFs { k } => {
            static D: OnceLock<Vec<&'static str>> = OnceLock::new();
            let dirs = D.get_or_init(|| vec!["/", "//", Box::leak(format!("{}/", vdir(0)).into_boxed_str())]);
            // every other time with an EMPTY directory list: a relative name then has no candidate path at all
            let none: &[&str] = &[];
            let settings = TimeZoneSettings::new(if (*k / 3) % 2 == 0 { dirs } else { none }, TimeZoneSettings::DEFAULT_READ_FILE_FN);
            h(settings.parse_posix_tz(["verif-c15-rel/Zone", ":verif-c15-rel/Zone", "verif-c15-rel/../verif-c15-rel/Zone"][*k as usize % 3]).map_err(|e| format!("{e:?}")))
        }
        Op::Ambient { k } => match k % 5 {
            0 => h(TimeZone::local().map_err(|e| format!("{e:?}"))),
            1 => h(TimeZone::from_posix_tz("UTC0").map_err(|e| format!("{e:?}"))),
            2 => h(TimeZone::from_posix_tz("EST5EDT,M3.2.0,M11.1.0").map_err(|e| format!("{e:?}"))),
            // names that exist only under the directory the child process's TZDIR points to (default settings must not look there)
            3 => h(TimeZone::from_posix_tz("Zone/A").map_err(|e| format!("{e:?}"))),
            _ => h(TimeZone::from_posix_tz(":Zone/B").map_err(|e| format!("{e:?}"))),
        },
    }
}

fn build_zones(p: &Program) -> Result<Vec<TimeZone>, String> {
    let mut v = vec![TimeZone::utc()];
    for z in &p.zones {
        v.push(z.to_tz().map_err(|e| format!("zone refused: {e:?}"))?);
    }
    Ok(v)
}

fn permutation(n: usize, seed: u64) -> Vec<usize> {
    let mut v: Vec<usize> = (0..n).collect();
    let mut x = seed | 1;
    for i in (1..n).rev() {
        x ^= x << 13;
        x ^= x >> 7;
        x ^= x << 17;
        v.swap(i, (x % (i as u64 + 1)) as usize);
    }
    v
}

pub fn sequential_digests(p: &Program) -> Result<Vec<u64>, String> {
    let zones = build_zones(p)?;
    Ok(p.ops.iter().map(|op| exec(op, &zones, &p.times)).collect())
}

pub fn check_program(p: &Program, st: &mut Stats) -> Result<(), String> {
    if p.ops.is_empty() || p.times.is_empty() {
        return Ok(());
    }
    let zones = build_zones(p)?;
    let base: Vec<u64> = p.ops.iter().map(|op| exec(op, &zones, &p.times)).collect();
    st.eval(p.ops.len() as u64);
    // (2) reversed order and a random permutation, same thread
    for (label, order) in [("reversed", (0..p.ops.len()).rev().collect::<Vec<_>>()), ("permuted", permutation(p.ops.len(), p.perm_seed))] {
        for &i in &order {
            st.eval(1);
            let d = exec(&p.ops[i], &zones, &p.times);
            if d != base[i] {
                return Err(format!("op #{i} {:?} returns something else when the program runs in {label} order (history dependence: result differs from the plain sequential run)", p.ops[i]));
            }
        }
    }
    // (3) N threads sharing zones by reference, each running its own permutation, with a barrier and yields
    for n in [2usize, 4, 8, 16] {
        let barrier = Barrier::new(n);
        let res: Vec<Result<(), String>> = std::thread::scope(|s| {
            let hs: Vec<_> = (0..n)
                .map(|k| {
                    let (zones, base, barrier, p) = (&zones, &base, &barrier, p);
                    s.spawn(move || {
                        let order = permutation(p.ops.len(), p.perm_seed.wrapping_add(k as u64 * 7919 + n as u64));
                        barrier.wait();
                        for (j, &i) in order.iter().enumerate() {
                            if (j + k) % 3 == 0 {
                                std::thread::yield_now();
                            }
                            let d = exec(&p.ops[i], zones, &p.times);
                            if d != base[i] {
                                return Err(format!("op #{i} {:?} returned something else on thread {k} of {n} running concurrently than in the sequential run", p.ops[i]));
                            }
                        }
                        Ok(())
                    })
                })
                .collect();
            hs.into_iter().map(|h| h.join().unwrap_or_else(|_| Err("a thread panicked".into()))).collect()
        });
        st.eval((n * p.ops.len()) as u64);
        for r in res {
            r?;
        }
    }
    let shared = p.ops.iter().filter(|o| matches!(o, Op::Lookup { .. } | Op::Search { .. } | Op::SearchN { .. })).count() >= 2;
    if p.zones.len() == 4 && p.zones.iter().all(|z| matches!(z.trailer, MTrailer::Alt(_)) && z.trans.is_empty()) {
        st.class("programs_same_rule_zone_family");
    }
    if p.ops.iter().all(|o| matches!(o, Op::ParseFile { f } if *f >= 240)) {
        st.class("programs_same_footer_other_version");
        st.nontrivial(p);
    }
    let mixed = p.ops.iter().any(|o| matches!(o, Op::ParseFile { .. } | Op::Resolve { .. } | Op::ParseLocal { .. })) && shared;
    if shared || mixed {
        st.nontrivial(p);
    }
    if mixed {
        st.class("programs_mixing_parse_and_query");
    }
    st.class("programs");
    if st.wants_sample("program") {
        st.sample("program", || json!({"zones": p.zones.len(), "times": p.times, "ops": p.ops.iter().take(12).map(|o| format!("{o:?}")).collect::<Vec<_>>(), "n_ops": p.ops.len()}));
    }
    Ok(())
}

/// Child mode: print the sequential digests of the program stored in the file (one per line).
pub fn child_main(path: &str) -> i32 {
    if std::env::var("VERIF_C15_MAKE_REAL").is_ok() {
        make_real_tree();
    }
    let rc = child_inner(path);
    if std::env::var("VERIF_C15_MAKE_REAL").is_ok() {
        remove_real_tree();
    }
    rc
}

fn child_inner(path: &str) -> i32 {
    let text = match std::fs::read_to_string(path) {
        Ok(t) => t,
        Err(_) => return 2,
    };
    let progs: Vec<Program> = match serde_json::from_str(&text) {
        Ok(p) => p,
        Err(_) => return 2,
    };
    for p in &progs {
        match sequential_digests(p) {
            Ok(d) => println!("{}", d.iter().map(|x| x.to_string()).collect::<Vec<_>>().join(" ")),
            Err(_) => println!("ERR"),
        }
    }
    0
}


/// Run the programs sequentially here and in a child process whose ambient state differs (TZ, TZDIR, LANG, LC_ALL, cwd, and the
/// virtual zoneinfo directories created for real with other contents); every digest must be the same. Ok(number of ops compared).
pub fn ambient_compare(progs: &[Program]) -> Result<u64, Failure> {
    let path = crate::run::verif_dir().join(format!("build/c15-programs-{}.json", std::process::id()));
    let _ = std::fs::create_dir_all(path.parent().unwrap());
    std::fs::write(&path, serde_json::to_string(progs).unwrap()).map_err(|e| Failure::new("infra", format!("cannot write {path:?}: {e}"), json!(null)))?;
    remove_real_tree(); // the parent runs with the virtual directories absent from the real disk
    let exe = std::env::current_exe().map_err(|e| Failure::new("infra", e.to_string(), json!(null)))?;
    // the child's working directory holds a readable zone file under the relative name the RealFs operations resolve
    let cwd = crate::run::verif_dir().join(format!("build/c15cwd-{}", std::process::id()));
    let _ = std::fs::create_dir_all(cwd.join("verif-c15-rel"));
    let _ = std::fs::write(cwd.join("verif-c15-rel/Zone"), crate::tzif::footer_file(2, b"<+0111>-1:11"));
    let child = std::process::Command::new(exe)
        .arg("C15")
        .env("VERIF_C15_CHILD", &path)
        .env("VERIF_C15_MAKE_REAL", "1")
        .env("TZ", "<+11>-11")
        .env("TZDIR", vdir(0))
        .env("LANG", "tr_TR.UTF-8")
        .env("LC_ALL", "tr_TR.UTF-8")
        .current_dir(&cwd)
        .output();
    let _ = std::fs::remove_file(&path);
    let _ = std::fs::remove_dir_all(&cwd);
    let child = match child {
        Ok(c) if c.status.success() => String::from_utf8_lossy(&c.stdout).to_string(),
        other => return Err(Failure::new("infra", format!("child process failed: {other:?}"), json!(null))),
    };
    let lines: Vec<&str> = child.lines().collect();
    if lines.len() != progs.len() {
        return Err(Failure::new("infra", format!("child printed {} lines for {} programs", lines.len(), progs.len()), json!(null)));
    }
    let mut n = 0u64;
    for (p, line) in progs.iter().zip(lines) {
        let here = match sequential_digests(p) {
            Ok(d) => d.iter().map(|x| x.to_string()).collect::<Vec<_>>().join(" "),
            Err(_) => "ERR".into(),
        };
        n += p.ops.len() as u64;
        if here != line {
            let a: Vec<&str> = here.split(' ').collect();
            let b: Vec<&str> = line.split(' ').collect();
            let i = a.iter().zip(&b).position(|(x, y)| x != y).unwrap_or(0);
            return Err(Failure::new(
                "ambient",
                format!("op #{i} {:?} returns something else in a process started with TZ='<+11>-11', TZDIR, LANG changed, another working directory (holding a file under the relative name) and the virtual zoneinfo directories existing for real on disk (with other contents): the result depends on ambient process state", p.ops.get(i)),
                p.clone(),
            ));
        }
    }
    Ok(n)
}

pub fn replay(kind: &str, case: &Value) -> Result<(), String> {
    if kind == "ambient-default-dir" {
        return match TimeZoneSettings::DEFAULT_DIRECTORIES.iter().find(|d| !d.starts_with('/')) {
            Some(d) => Err(format!("default zoneinfo directory {d:?} is relative")),
            None => Ok(()),
        };
    }
    let p: Program = serde_json::from_value(case.clone()).map_err(|e| e.to_string())?;
    if kind == "ambient" {
        return ambient_compare(std::slice::from_ref(&p)).map(|_| ()).map_err(|f| f.summary);
    }
    check_program(&p, &mut Stats::new())
}

pub fn arb_program() -> SBoxedStrategy<Program> {
    let op = prop_oneof![
        1 => any::<u8>().prop_map(|f| Op::ParseFile { f }),
        2 => (any::<u8>(), any::<u8>()).prop_map(|(s, vfs)| Op::Resolve { s, vfs }),
        1 => any::<u8>().prop_map(|vfs| Op::ParseLocal { vfs }),
        3 => (any::<u8>(), any::<u8>()).prop_map(|(z, t)| Op::Lookup { z, t }),
        3 => (any::<u8>(), any::<u8>(), any::<u8>()).prop_map(|(z, t, via)| Op::Search { z, t, via }),
        2 => (any::<u8>(), any::<u8>(), any::<u8>(), any::<u8>()).prop_map(|(z, t, via, n)| Op::SearchN { z, t, via, n }),
        2 => (any::<u8>(), any::<u8>(), any::<u8>()).prop_map(|(z1, z2, t)| Op::Project { z1, z2, t }),
        1 => (any::<u8>(), any::<u8>()).prop_map(|(z, t)| Op::Format { z, t }),
        1 => any::<u8>().prop_map(|t| Op::Utc { t }),
        2 => any::<u8>().prop_map(|k| if k % 2 == 0 { Op::Ambient { k: k / 2 } } else { Op::RealFs { k: k / 2 } }),
    ];
    let generic = (
        proptest::collection::vec(prop_oneof![gens::arb_zone(ZoneCfg { max_trans: 8, leaps: true, wide_times: false }), gens::arb_aligned_zone()], 1..4),
        proptest::collection::vec(prop_oneof![3 => -2_000_000_000i64..4_000_000_000, 1 => gens::arb_unix_time()], 1..6),
        proptest::collection::vec(op, 4..40),
        any::<u64>(),
    )
        .prop_map(|(zones, times, ops, perm_seed)| Program { zones, times, ops, perm_seed });
    // same-rule family: four zones with the US rule over four offsets, searched at the local times of one year's gap and fold hours
    let family_op = prop_oneof![
        4 => (1u8..5, any::<u8>(), 0u8..2).prop_map(|(z, t, via)| Op::Search { z, t, via }),
        3 => (1u8..5, any::<u8>(), 0u8..2, any::<u8>()).prop_map(|(z, t, via, n)| Op::SearchN { z, t, via, n }),
        1 => (1u8..5, any::<u8>()).prop_map(|(z, t)| Op::Lookup { z, t }),
    ];
    let family = (proptest::sample::select(vec![2021i64, 2024, 1999]), proptest::collection::vec(family_op, 6..30), any::<u64>()).prop_map(|(y, ops, perm_seed)| {
        let zones = us_family();
        let r = match &zones[0].trailer {
            MTrailer::Alt(r) => r.clone(),
            _ => unreachable!(),
        };
        // instants at which zone k's standard clock shows 02:30 on the day DST starts (inside the gap) and 01:30 on the day it ends (fold)
        let mut times = vec![];
        for k in 0..4i64 {
            times.push(r.s(y) + 1_800 + 3_600 * k);
            times.push(r.e(y) - 1_800 + 3_600 * k);
        }
        Program { zones, times, ops, perm_seed }
    });
    // footer family: the same footer bytes inside files of different versions, parsed back to back
    let footers = (proptest::collection::vec((240u8..=255).prop_map(|f| Op::ParseFile { f }), 4..24), any::<u64>()).prop_map(|(ops, perm_seed)| Program { zones: vec![], times: vec![0], ops, perm_seed });
    prop_oneof![6 => generic, 1 => family, 1 => footers].sboxed()
}

pub fn run(ctx: &Ctx) -> Outcome {
    let mut out = Outcome::new(
        "Generated programs: 4..40 operations (parse a real TZif file, resolve a TZ value through settings over four virtual file systems that give the same names different contents and directory orders, parse_local, lookup, search, buffer search, projection, formatting, UTC conversion, the ambient entry points TimeZone::local / from_posix_tz) over 1..3 generated zones + UTC shared by reference and a pool of <= 5 timestamps reused across zones; one program in eight searches a family of four zones sharing rule days/times but not offsets in one year's gap and fold hours, one in eight parses byte-identical footers inside version 2/3/4 files back to back. \
         Each program runs sequentially (reference), reversed, permuted, on 2/4/8/16 threads (own permutation per thread, barrier start, interleaved yields), and - batched - in a child process with TZ, TZDIR, LANG and the working directory changed (the new working directory holds a zone file under the relative name that the RealFs operations resolve through absolute directories). Every operation's digest (hash of the Debug rendering of its complete result) must equal the sequential one. \
         Non-trivial: at least two query operations on shared zones; class: programs mixing parsing and queries. Compile-time half (checks/C15.sh): Send + Sync + 'static + Freeze for every public type (autotraits crate). Auxiliary, non-PBT audit (labelled as such): no writable static / TLS symbol of crate tz in the linked harness, no static mut / thread_local! / env:: token in the crate's non-test sources.",
    );
    out.assumptions = vec![
        "the schedule is the operating system's: a race needing a rare interleaving, or a correctly keyed and synchronised cache, is invisible to this check (DESIGN.md §8)".into(),
        "digest = hash of the Debug rendering, which covers every field of the results".into(),
    ];
    // a relative default zoneinfo directory would make every default-settings resolution depend on the process's working directory
    for d in TimeZoneSettings::DEFAULT_DIRECTORIES {
        if !d.starts_with('/') {
            out.failure = Some(Failure::new("ambient-default-dir", format!("default zoneinfo directory {d:?} is relative: TimeZone::from_posix_tz / local() depend on the current working directory (process-global ambient state)"), json!({"directory": d})));
            return out;
        }
    }
    let cases = ctx.tier.pick(250u32, 6_000u32);
    let strat = arb_program();
    let rs = par_shards(4, |shard, st| pt_shard(ctx, "program", shard, cases, &strat, st, check_program));
    out.absorb_all(rs);
    if out.failure.is_some() {
        return out;
    }
    // (4) child process under perturbed ambient state
    let mut dr = Drawer::new(ctx, "child", 0);
    let progs: Vec<Program> = (0..ctx.tier.pick(60, 600)).map(|_| dr.draw(&strat)).collect();
    match ambient_compare(&progs) {
        Ok(n) => out.stats.eval(n),
        Err(f) => {
            out.failure = Some(f);
            return out;
        }
    }
    out.stats.class_n("programs_rerun_under_perturbed_environment", progs.len() as u64);
    out
}
