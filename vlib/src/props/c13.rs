//! C13 — zone constructor accepts exactly the well-formed zones, each with its own error.
use crate::gens::{self, ZoneCfg};
use crate::model::{MLtt, MTrailer, MZone};
use crate::oleap;
use crate::ozone::{self, Fwd, ZoneModel};
use crate::run::*;
use proptest::prelude::*;
use serde::{Deserialize, Serialize};
use serde_json::{json, Value};
use tz::error::timezone::{LocalTimeTypeError as LE, TimeZoneError as ZE};
use tz::timezone::{LocalTimeType, TimeZone, TimeZoneRef};
use tz::TzError;

#[derive(Debug, Clone, Serialize, Deserialize)]
pub enum Defect {
    None,
    NoTypes,
    IndexOut { k: u32, max: bool },
    EqualTimes { k: u32 },
    Inverted { k: u32 },
    LeapFirstTime,
    LeapFirstCorr { c: i32 },
    LeapStep { k: u32, step: i32 },
    LeapSpacing { k: u32 },
    RuleMismatch { field: u8 },
}

#[derive(Debug, Clone, Serialize, Deserialize)]
pub struct ZoneCase {
    pub zone: MZone,
    pub defect: Defect,
}

fn err_name(e: &TzError) -> String {
    format!("{e:?}")
}

/// Set of violated clauses (names of the expected errors), evaluated independently; None in the set = unspecified corner reached.
fn violated(z: &MZone) -> (Vec<&'static str>, bool) {
    let mut v = vec![];
    let mut unspecified = false;
    if z.types.is_empty() {
        v.push("NoLocalTimeType");
        return (v, false);
    }
    if z.trans.iter().any(|&(_, i)| i >= z.types.len()) {
        v.push("InvalidLocalTimeTypeIndex");
    }
    if z.trans.windows(2).any(|w| w[0].0 >= w[1].0) {
        v.push("InvalidTransition");
    }
    if !oleap::valid_table(&z.leaps) {
        v.push("InvalidLeapSecond");
    }
    if v.is_empty() {
        match ozone::zone_validity(z) {
            Some(Ok(())) => {}
            Some(Err(k)) => v.push(k),
            None => unspecified = true,
        }
    } else if !matches!(z.trailer, MTrailer::None) && !z.trans.is_empty() {
        // an earlier clause is violated; the rule clause may or may not be as well: not evaluated
        unspecified = false;
    }
    (v, unspecified)
}

fn apply(z: &mut MZone, d: &Defect) -> bool {
    let n = z.trans.len();
    match d {
        Defect::None => true,
        Defect::NoTypes => {
            z.types.clear();
            z.trans.clear();
            z.trailer = MTrailer::None;
            true
        }
        Defect::IndexOut { k, max } => {
            if n == 0 {
                return false;
            }
            let i = idx(*k, n);
            z.trans[i].1 = if *max { usize::MAX } else { z.types.len() };
            true
        }
        Defect::EqualTimes { k } => {
            if n < 2 {
                return false;
            }
            let i = idx(*k, n - 1);
            z.trans[i + 1].0 = z.trans[i].0;
            true
        }
        Defect::Inverted { k } => {
            if n < 2 {
                return false;
            }
            let i = idx(*k, n - 1);
            let (a, b) = (z.trans[i].0, z.trans[i + 1].0);
            z.trans[i].0 = b;
            z.trans[i + 1].0 = a;
            true
        }
        Defect::LeapFirstTime => {
            if z.leaps.is_empty() {
                z.leaps.push((-1, 1));
            } else {
                z.leaps[0].0 = -1;
            }
            true
        }
        Defect::LeapFirstCorr { c } => {
            if z.leaps.is_empty() {
                z.leaps.push((0, *c));
            } else {
                let delta = *c as i64 - z.leaps[0].1 as i64;
                for r in z.leaps.iter_mut() {
                    r.1 = (r.1 as i64 + delta).clamp(i32::MIN as i64, i32::MAX as i64) as i32;
                }
            }
            true
        }
        Defect::LeapStep { k, step } => {
            if z.leaps.len() < 2 {
                return false;
            }
            let i = idx(*k, z.leaps.len() - 1);
            let base = z.leaps[i].1;
            let old = z.leaps[i + 1].1;
            let delta = (base as i64 + *step as i64) - old as i64;
            for r in z.leaps.iter_mut().skip(i + 1) {
                r.1 = (r.1 as i64 + delta) as i32;
            }
            true
        }
        Defect::LeapSpacing { k } => {
            if z.leaps.len() < 2 {
                return false;
            }
            let i = idx(*k, z.leaps.len() - 1);
            let t = z.leaps[i].0 + 28 * 86400 - 2;
            // moving record i+1 earlier keeps later gaps >= minimal
            z.leaps[i + 1].0 = t;
            true
        }
        Defect::RuleMismatch { field } => {
            if n == 0 || matches!(z.trailer, MTrailer::None) {
                return false;
            }
            let cur = z.types[z.trans[n - 1].1].clone();
            let mut t = cur.clone();
            match field % 6 {
                0 => t.off = if t.off == i32::MAX { t.off - 1 } else { t.off + 1 },
                1 => t.dst = !t.dst,
                2 => t.name = if t.name.as_deref() == Some("XXX") { None } else { Some("XXX".into()) },
                // a strict prefix / an extension / a change of the last character of the designation
                3 => match t.name.clone() {
                    Some(n) if n.len() > 3 => t.name = Some(n[..n.len() - 1].to_string()),
                    Some(n) => t.name = Some(format!("{n}X")),
                    None => t.name = Some("AAA".into()),
                },
                4 => match t.name.clone() {
                    Some(n) if n.len() < 7 => t.name = Some(format!("{n}0")),
                    Some(n) => t.name = Some(n[..6].to_string()),
                    None => t.name = Some("AAAAAAA".into()),
                },
                _ => match t.name.clone() {
                    Some(n) => {
                        let mut b = n.into_bytes();
                        let k = b.len() - 1;
                        b[k] = if b[k] == b'Z' { b'Y' } else { b'Z' };
                        t.name = Some(String::from_utf8(b).unwrap());
                    }
                    None => t.name = Some("ZZZ".into()),
                },
            }
            z.types.push(t);
            z.trans[n - 1].1 = z.types.len() - 1;
            true
        }
    }
}

pub fn check_zone(c: &ZoneCase, st: &mut Stats) -> Result<(), String> {
    let mut z = c.zone.clone();
    // the base zone must itself be valid by construction
    let base_ok = matches!(ozone::zone_validity(&z), Some(Ok(())));
    if !base_ok {
        return Err(format!("generator produced a base zone the model calls invalid: {:?}", ozone::zone_validity(&z)));
    }
    if !apply(&mut z, &c.defect) {
        st.exclude("defect not applicable to this zone shape");
        return Ok(());
    }
    check_tuple(&z, matches!(c.defect, Defect::None), st)
}

/// Check one (possibly invalid) tuple through both constructors.
pub fn check_tuple(z: &MZone, expect_valid_by_construction: bool, st: &mut Stats) -> Result<(), String> {
    st.eval(1);
    let parts = z.parts().map_err(|e| format!("component refused: {e:?}"))?;
    let owned = TimeZone::new(parts.transitions.clone(), parts.types.clone(), parts.leaps.clone(), parts.rule);
    let borrowed = TimeZoneRef::new(&parts.transitions, &parts.types, &parts.leaps, &parts.rule);
    match (&owned, &borrowed) {
        (Ok(_), Ok(_)) => {}
        (Err(a), Err(b)) if err_name(a) == err_name(b) => {}
        (a, b) => return Err(format!("owned and borrowed constructors decide differently: {:?} vs {:?}", a.as_ref().map(|_| "Ok").map_err(err_name), b.as_ref().map(|_| "Ok").map_err(err_name))),
    }
    let (viol, unspecified) = violated(z);
    if unspecified {
        st.class("unspecified_corner");
        return Ok(());
    }
    match &owned {
        Ok(tzv) => {
            if !viol.is_empty() {
                return Err(format!("zone violating {viol:?} was accepted"));
            }
            st.class("accepted_valid");
            let r = tzv.as_ref();
            let b = borrowed.as_ref().unwrap();
            for rr in [&r, b] {
                if rr.transitions() != &parts.transitions[..] || rr.local_time_types() != &parts.types[..] || rr.leap_seconds() != &parts.leaps[..] || rr.extra_rule() != &parts.rule {
                    return Err("accessors of the accepted zone do not give back the constructor arguments".into());
                }
            }
            if z.trans.len() >= 2 && !matches!(z.trailer, MTrailer::None) {
                st.nontrivial(z);
            }
        }
        Err(e) => {
            if viol.is_empty() {
                if expect_valid_by_construction {
                    return Err(format!("well-formed zone refused with {e:?}"));
                }
                return Err(format!("zone satisfying every clause refused with {e:?}"));
            }
            let name = match e {
                TzError::TimeZone(ZE::NoLocalTimeType) => "NoLocalTimeType",
                TzError::TimeZone(ZE::InvalidLocalTimeTypeIndex) => "InvalidLocalTimeTypeIndex",
                TzError::TimeZone(ZE::InvalidTransition) => "InvalidTransition",
                TzError::TimeZone(ZE::InvalidLeapSecond) => "InvalidLeapSecond",
                TzError::TimeZone(ZE::InconsistentExtraRule) => "InconsistentExtraRule",
                other => return Err(format!("zone violating {viol:?} refused with unexpected {other:?}")),
            };
            if !viol.contains(&name) {
                return Err(format!("zone violating {viol:?} refused with {name}"));
            }
            st.class(&format!("refused_{name}"));
            st.nontrivial(z);
        }
    }
    Ok(())
}

pub fn replay(kind: &str, case: &Value) -> Result<(), String> {
    match kind {
        "tuple" => check_tuple(&serde_json::from_value(case.clone()).map_err(|e| e.to_string())?, false, &mut Stats::new()),
        "ltt-short" => check_short(serde_json::from_value(case.clone()).map_err(|e| e.to_string())?),
        "ltt" => {
            let (off, name): (i32, Option<Vec<u8>>) = serde_json::from_value(case.clone()).map_err(|e| e.to_string())?;
            check_ltt(off, name.as_deref(), &mut Stats::new())
        }
        _ => check_zone(&serde_json::from_value(case.clone()).map_err(|e| e.to_string())?, &mut Stats::new()),
    }
}

fn check_short(off: i32) -> Result<(), String> {
    let a = LocalTimeType::with_ut_offset(off);
    let b = LocalTimeType::new(off, false, None);
    if a.is_ok() != (off != i32::MIN) || a.as_ref().ok() != b.as_ref().ok() {
        return Err(format!("LocalTimeType::with_ut_offset({off}) -> {a:?}, LocalTimeType::new({off}, false, None) -> {b:?}"));
    }
    let z = TimeZone::fixed(off);
    let w = b.ok().map(|l| TimeZone::new(vec![], vec![l], vec![], None));
    match (&z, &w) {
        (Ok(z), Some(Ok(w))) if z == w => Ok(()),
        (Err(_), None) => Ok(()),
        _ => Err(format!("TimeZone::fixed({off}) -> {z:?}, but the general constructor gives {w:?}")),
    }
}

fn check_ltt(off: i32, name: Option<&[u8]>, st: &mut Stats) -> Result<(), String> {
    st.eval(1);
    let got = LocalTimeType::new(off, true, name);
    let legal = |b: u8| b.is_ascii_alphanumeric() || b == b'+' || b == b'-';
    let exp: Result<(), &str> = if off == i32::MIN {
        Err("InvalidUtcOffset")
    } else {
        match name {
            None => Ok(()),
            Some(n) if !(3..=7).contains(&n.len()) => Err("InvalidTimeZoneDesignationLength"),
            Some(n) if !n.iter().all(|&b| legal(b)) => Err("InvalidTimeZoneDesignationChar"),
            Some(_) => Ok(()),
        }
    };
    let single = (off == i32::MIN) as u8 + name.map(|n| !(3..=7).contains(&n.len()) || !n.iter().all(|&b| legal(b))).unwrap_or(false) as u8 <= 1;
    match (&got, exp) {
        (Ok(l), Ok(())) => {
            if l.ut_offset() != off || !l.is_dst() || l.time_zone_designation().as_bytes() != name.unwrap_or(b"") {
                return Err(format!("LocalTimeType::new({off}, {name:?}) accessors differ"));
            }
            Ok(())
        }
        (Err(e), Err(k)) => {
            let n = match e {
                LE::InvalidUtcOffset => "InvalidUtcOffset",
                LE::InvalidTimeZoneDesignationLength => "InvalidTimeZoneDesignationLength",
                LE::InvalidTimeZoneDesignationChar => "InvalidTimeZoneDesignationChar",
                _ => "?",
            };
            if single && n != k {
                return Err(format!("LocalTimeType::new({off}, {name:?}) refused with {n}, expected {k}"));
            }
            st.nontrivial_exact(1);
            Ok(())
        }
        (g, e) => Err(format!("LocalTimeType::new({off}, {:?}) -> {:?}, expected {e:?}", name.map(|n| String::from_utf8_lossy(n).to_string()), g.as_ref().map(|_| "Ok"))),
    }
}

pub fn arb_defect() -> SBoxedStrategy<Defect> {
    prop_oneof![
        3 => Just(Defect::None),
        1 => Just(Defect::NoTypes),
        2 => (any::<u32>(), any::<bool>()).prop_map(|(k, max)| Defect::IndexOut { k, max }),
        2 => any::<u32>().prop_map(|k| Defect::EqualTimes { k }),
        2 => any::<u32>().prop_map(|k| Defect::Inverted { k }),
        1 => Just(Defect::LeapFirstTime),
        2 => proptest::sample::select(vec![0i32, 2, -2, i32::MIN, i32::MAX, 3]).prop_map(|c| Defect::LeapFirstCorr { c }),
        2 => (any::<u32>(), proptest::sample::select(vec![0i32, 2, -2, 3])).prop_map(|(k, step)| Defect::LeapStep { k, step }),
        2 => any::<u32>().prop_map(|k| Defect::LeapSpacing { k }),
        4 => (0u8..6).prop_map(|field| Defect::RuleMismatch { field }),
    ]
    .sboxed()
}

pub fn run(ctx: &Ctx) -> Outcome {
    let mut out = Outcome::new(
        "Valid zones by construction (6 shapes, +-leap table, i64-wide times, full-i32 offsets, value-equal types in different slots) through both constructors, then exactly one defect of 10 classes (no types; index = len / usize::MAX; equal / inverted times; first leap time -1; first correction 0/+-2/extremes; later step 0/+-2; spacing one second short; last type differing from the rule's in exactly one of offset/flag/designation); \
         random multi-defect tuples; an enumeration of two-record leap tables around the minimal spacing up to i64::MAX; LocalTimeType::new over every byte value at every position for lengths 3..7, every length 0..=1100 plus 4096 / 65535..65543 / 2^20, and offset i32::MIN. \
         Oracle: validity predicate transcribed from the property (O-leap, O-rule). Specific error asserted when exactly one clause is violated, membership in the violated set otherwise. Non-trivial: any refused tuple, or an accepted zone with >= 2 transitions and a trailer.",
    );
    out.assumptions = vec![
        "unspecified corners (no Ok/Err claim, only agreement of both constructors and no panic): trailing rule with last transition at i64::MIN, with a switch instant outside i64, or at an instant where a DST rule cannot be evaluated (year outside i32::MIN+2..i32::MAX-2) or whose rule is 'overlapping'".into(),
    ];
    let cases = ctx.tier.pick(40_000u32, 600_000u32);
    let strat = (prop_oneof![6 => gens::arb_zone(ZoneCfg { max_trans: 12, leaps: true, wide_times: true }), 1 => gens::arb_leap_adjacent_zone(), 1 => gens::arb_aligned_zone()], arb_defect()).prop_map(|(zone, defect)| ZoneCase { zone, defect });
    let rs = par_shards(16, |shard, st| pt_shard(ctx, "zone", shard, cases, &strat, st, check_zone));
    out.absorb_all(rs);
    if out.failure.is_some() {
        return out;
    }
    // random multi-defect tuples
    let tuple = (
        proptest::collection::vec((prop_oneof![3 => -1000i64..1000, 1 => any::<i64>(), 1 => proptest::sample::select(vec![i64::MIN, i64::MAX, i64::MIN + 1, 0])], prop_oneof![4 => 0usize..4, 1 => proptest::sample::select(vec![usize::MAX, 4, 5])]), 0..5),
        proptest::collection::vec(gens::arb_ltt_wide(), 0..4),
        proptest::collection::vec((prop_oneof![3 => -10i64..100_000_000, 1 => any::<i64>()], prop_oneof![4 => -3i32..=3, 1 => any::<i32>()]), 0..4),
        prop_oneof![2 => Just(MTrailer::None), 1 => gens::arb_ltt_wide().prop_map(MTrailer::Fixed), 1 => gens::arb_rule().prop_map(|r| MTrailer::Alt(r.rule))],
    )
        .prop_map(|(mut trans, types, mut leaps, trailer)| {
            trans.sort();
            leaps.sort();
            MZone { trans, types, leaps, trailer }
        });
    let cases = ctx.tier.pick(40_000u32, 600_000u32);
    let rs = par_shards(16, |shard, st| pt_shard(ctx, "tuple", 100 + shard, cases, &tuple, st, |z, st| check_tuple(z, false, st)));
    out.absorb_all(rs);
    if out.failure.is_some() {
        return out;
    }
    // leap spacing enumeration incl. the top of the i64 range
    let rs = par_shards(1, |_, st| {
        let gap = 28 * 86400i64 - 1;
        let mut l0s = vec![0i64, 1, 1_000_000_000, i64::MAX - gap - 2, i64::MAX - gap - 1, i64::MAX - gap, i64::MAX - gap + 1, i64::MAX - 2, i64::MAX - 1, i64::MAX];
        l0s.push(i32::MAX as i64);
        l0s.extend([1i64 << 62, (1i64 << 62) + 1, i64::MAX / 2 + gap]);
        for &l0 in &l0s {
            // incl. second records far BELOW the first one: the true difference does not fit i64 (a spacing test done in wrapping
            // arithmetic sees a large positive gap there — operator sweep 3, timezone/mod.rs:372)
            let mut l1s = vec![i64::MAX, i64::MAX - 1, i64::MIN, i64::MIN + 1, i64::MIN + gap, -(1i64 << 62), -1, 0];
            for d in -2i64..=2 {
                if let Some(x) = l0.checked_add(gap).and_then(|x| x.checked_add(d)) {
                    l1s.push(x);
                }
                if let Some(x) = l0.checked_add(d) {
                    l1s.push(x);
                }
            }
            for l1 in l1s {
                for (c0, c1) in [(1, 2), (1, 0), (-1, -2), (-1, 0), (1, 1), (1, 3), (2, 3), (0, 1)] {
                    let z = MZone { trans: vec![], types: vec![MLtt::new(0, false, None)], leaps: vec![(l0, c0), (l1, c1)], trailer: MTrailer::None };
                    check_enum("tuple", &z, st, |z, st| {
                        let r = check_tuple(z, false, st);
                        st.nontrivial_exact(1);
                        r
                    })?;
                }
            }
        }
        Ok(())
    });
    out.absorb_all(rs);
    if out.failure.is_some() {
        return out;
    }
    // leap-junction family: last transition recorded exactly on an inserted leap second (count L_n of the real table), DST rule with a
    // boundary on the UTC second that this count denotes (1 January / 1 July 00:00:00 UTC): the well-formed zone must be accepted,
    // its twin pointing at the other half of the rule must be refused
    let rs = par_shards(1, |_, st| {
        use crate::model::{MDay, MRule};
        let table = oleap::real_table();
        // the real table's prefixes, then tables whose last record is a negative leap second (the count L then denotes the UTC second
        // after the deleted one)
        let mut tables: Vec<Vec<(i64, i32)>> = (1..=table.len()).map(|n| table[..n].to_vec()).collect();
        tables.push(vec![(78_796_799, -1)]);
        tables.push(vec![(78_796_799, -1), (94_694_398, -2)]);
        tables.push(vec![(78_796_800, 1), (94_694_400, 0)]);
        tables.push(vec![(78_796_800, 1), (94_694_401, 2), (126_230_401, 1)]);
        for leaps in tables {
            let n = leaps.len();
            let (l, _) = leaps[n - 1];
            // two transitions on consecutive counts straddling the last record (L and L+1 denote the same UTC second when L is an
            // inserted one): strictly increasing, hence well formed, with any trailer that fits
            for (t0, t1) in [(l, l + 1), (l - 1, l), (l + 1, l + 2)] {
                for fixed in [false, true] {
                    let a = MLtt::new(0, false, Some("AAA"));
                    let b = MLtt::new(3600, true, Some("BBB"));
                    let z = MZone { trans: vec![(t0, 1), (t1, 0)], types: vec![a.clone(), b], leaps: leaps.clone(), trailer: if fixed { MTrailer::Fixed(a) } else { MTrailer::None } };
                    check_enum("tuple", &z, st, |z, st| {
                        let r = check_tuple(z, true, st);
                        st.nontrivial_exact(1);
                        st.class("transitions_on_consecutive_counts_at_a_leap_record");
                        r
                    })?;
                }
            }
            let u = match oleap::g(&leaps, l) {
                Some(u) => u,
                None => continue,
            };
            let cv = crate::cal::civil_from_unix(u as i128);
            let day = if cv.mo == 1 { MDay::J1(1) } else { MDay::M(7, 1, crate::cal::weekday(crate::cal::days_from_civil(cv.y, 7, 1)) as u8) };
            for dst_first in [true, false] {
                let std = MLtt::new(0, false, Some("STD"));
                let dst = MLtt::new(3600, true, Some("DST"));
                let other = MDay::J1(100);
                let rule = if dst_first { MRule { std: std.clone(), dst: dst.clone(), start: day, start_time: 0, end: other, end_time: 3600 } } else { MRule { std: std.clone(), dst: dst.clone(), start: other, start_time: 0, end: day, end_time: 3600 } };
                if crate::orule::classify(&rule) == crate::orule::Class::Unstable {
                    continue;
                }
                for good in [true, false] {
                    // at u the rule switches to dst (dst_first) or to std
                    let right = if dst_first { 1usize } else { 0 };
                    let idx_last = if good { right } else { 1 - right };
                    let z = MZone { trans: vec![(l - 40_000_000, 1 - idx_last), (l, idx_last)], types: vec![std.clone(), dst.clone()], leaps: leaps.clone(), trailer: MTrailer::Alt(rule.clone()) };
                    check_enum("tuple", &z, st, |z, st| {
                        let r = check_tuple(z, good, st);
                        st.nontrivial_exact(1);
                        st.class("leap_junction_family");
                        r
                    })?;
                }
            }
        }
        Ok(())
    });
    out.absorb_all(rs);
    if out.failure.is_some() {
        return out;
    }
    // rules whose two events are both thrown into the neighbouring year, behind a table whose last transition lies in the first / last
    // days of a year: the zone selecting the type the rule prescribes there is well formed, its twin is not
    {
        let rules: Vec<crate::model::MRule> = crate::orule::both_edge_rules().into_iter().step_by(7).collect();
        let rr = &rules;
        let n = 16u64;
        let rs = par_shards(n, |shard, st| {
            for r in rr.iter().skip(shard as usize).step_by(n as usize) {
                let class = crate::orule::classify(r);
                if !class.interleaves() {
                    continue;
                }
                for y in [2001i64, 2003] {
                    let jan1 = crate::cal::days_from_civil(y, 1, 1) * 86400;
                    for u in [jan1 + 3600, jan1 + 36 * 3600, jan1 + 3 * 86400 + 7, jan1 + 6 * 86400, jan1 - 36 * 3600, jan1 - 3 * 86400 - 7, jan1 - 6 * 86400] {
                        // not on (or next to) an event of the rule itself: the prescription is unambiguous
                        if (y - 2..=y + 1).any(|yy| (u - r.s(yy)).abs() <= 1 || (u - r.e(yy)).abs() <= 1) {
                            continue;
                        }
                        let right = if crate::orule::is_dst(r, class, u) { 1usize } else { 0 };
                        for good in [true, false] {
                            let idx_last = if good { right } else { 1 - right };
                            if !good && r.std == r.dst {
                                continue;
                            }
                            let z = MZone { trans: vec![(u - 40_000_000, 1 - idx_last), (u, idx_last)], types: vec![r.std.clone(), r.dst.clone()], leaps: vec![], trailer: MTrailer::Alt(r.clone()) };
                            check_enum("tuple", &z, st, |z, st| {
                                let res = check_tuple(z, good, st);
                                st.nontrivial_exact(1);
                                st.class("year_edge_rule_behind_table");
                                res
                            })?;
                        }
                    }
                }
            }
            Ok(())
        });
        out.absorb_all(rs);
        if out.failure.is_some() {
            return out;
        }
    }
    // LocalTimeType::new
    let rs = par_shards(1, |_, st| {
        // every length up to 1100 bytes (beyond any one-byte or two-byte length counter's wrap), then a few much longer ones
        for len in (0..=1100usize).chain([4096, 65_535, 65_536, 65_539, 65_543, 1 << 20]) {
            let n = vec![b'A'; len];
            for off in [0, i32::MIN, i32::MAX, i32::MIN + 1] {
                check_enum("ltt", &(off, Some(n.clone())), st, |c, st| check_ltt(c.0, c.1.as_deref(), st))?;
            }
        }
        for off in [0, i32::MIN] {
            check_enum("ltt", &(off, None::<Vec<u8>>), st, |c, st| check_ltt(c.0, c.1.as_deref(), st))?;
        }
        // the shorthand constructors decide like the general ones
        for off in [0, 1, -1, 3600, i32::MIN, i32::MIN + 1, i32::MAX] {
            st.eval(1);
            check_short(off).map_err(|m| Failure::new("ltt-short", m, json!(off)))?;
        }
        // every pair (first byte, last byte) around a valid core, for a legal and two illegal total lengths
        for len in [5usize, 8, 9] {
            for a in 0..=255u8 {
                for b in 0..=255u8 {
                    let mut n = vec![b'x'; len];
                    n[0] = a;
                    n[len - 1] = b;
                    check_enum("ltt", &(7, Some(n)), st, |c, st| check_ltt(c.0, c.1.as_deref(), st))?;
                }
            }
        }
        for len in 3..=7usize {
            for pos in 0..len {
                for b in 0..=255u8 {
                    let mut n = vec![b'a'; len];
                    n[pos] = b;
                    check_enum("ltt", &(60, Some(n)), st, |c, st| check_ltt(c.0, c.1.as_deref(), st))?;
                }
            }
        }
        Ok(())
    });
    out.absorb_all(rs);
    let _ = (Fwd::NoType, ZoneModel::new);
    out
}
