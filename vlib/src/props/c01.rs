//! C01 — gmtime: Unix time -> UTC calendar fields is correct and total on the range.
use crate::cal;
use crate::gens;
use crate::run::*;
use proptest::prelude::*;
use serde::{Deserialize, Serialize};
use serde_json::{json, Value};
use tz::{DateTime, TimeZoneRef, TzError, UtcDateTime};

#[derive(Debug, Clone, Serialize, Deserialize)]
pub struct TsCase {
    pub t: i64,
    pub ns: u32,
}

fn nontrivial(t: i64, c: Option<&cal::Civil>) -> bool {
    match c {
        None => (t > cal::max_unix() && t - cal::max_unix() <= 2 * 86400) || (t < cal::min_unix() && cal::min_unix() - t <= 2 * 86400),
        Some(c) => {
            (c.mo == 2 && c.d >= 28)
                || (c.mo == 3 && c.d == 1)
                || (c.mo == 12 && c.d == 31)
                || (c.mo == 1 && c.d == 1)
                || cal::fmod(c.y, 100) == 0
                || (t < 0 && cal::fmod128(t as i128, 86400) != 0)
                || t - cal::min_unix() <= 2 * 86400
                || cal::max_unix() - t <= 2 * 86400
        }
    }
}

/// The checker: one timestamp through both entry points against O-cal.
pub fn check_ts(case: &TsCase, st: &mut Stats, exact_count: bool) -> Result<(), String> {
    let (t, ns) = (case.t, case.ns);
    st.eval(1);
    let in_range = cal::min_unix() <= t && t <= cal::max_unix();
    let exp = if in_range { Some(cal::civil_from_unix(t as i128)) } else { None };
    if nontrivial(t, exp.as_ref()) {
        if exact_count {
            st.nontrivial_exact(1);
        } else {
            st.nontrivial(&(t, ns));
        }
    }
    let got = UtcDateTime::from_timespec(t, ns);
    let got2 = DateTime::from_timespec(t, ns, TimeZoneRef::utc());
    match (&exp, &got) {
        (None, Err(TzError::OutOfRange)) => {
            st.class("refused");
            if st.wants_sample("refused") {
                st.sample("refused", || json!({"t": t, "ns": ns, "expected": "Err(OutOfRange)"}));
            }
        }
        (None, Err(e)) => return Err(format!("t={t}: out of range, expected Err(OutOfRange), got Err({e:?})")),
        (None, Ok(d)) => return Err(format!("t={t}: outside the supported range but converted to {d}")),
        (Some(c), Err(e)) => return Err(format!("t={t}: inside the supported range (expected {c:?}) but refused with {e:?}")),
        (Some(c), Ok(d)) => {
            let f = (d.year() as i64, d.month() as i64, d.month_day() as i64, d.hour() as i64, d.minute() as i64, d.second() as i64);
            if f != (c.y, c.mo, c.d, c.h, c.mi, c.s) {
                return Err(format!("t={t}: fields {f:?} expected {c:?}"));
            }
            if d.nanoseconds() != ns {
                return Err(format!("t={t}: nanoseconds {} expected {ns}", d.nanoseconds()));
            }
            let days = cal::fdiv128(t as i128, 86400) as i64;
            if d.week_day() as i64 != cal::weekday(days) {
                return Err(format!("t={t}: week_day {} expected {}", d.week_day(), cal::weekday(days)));
            }
            let yd = cal::year_day(c.y, c.mo, c.d);
            if d.year_day() as i64 != yd {
                return Err(format!("t={t}: year_day {} expected {yd}", d.year_day()));
            }
            // documented ranges; the day exists in that month of that year
            let dim = cal::days_in_month(c.y, d.month() as i64);
            if !(1..=12).contains(&d.month()) || d.month_day() < 1 || d.month_day() as i64 > dim || d.hour() > 23 || d.minute() > 59 || d.second() > 59 || d.week_day() > 6 || d.year_day() as i64 >= 365 + cal::is_leap(c.y) as i64 {
                return Err(format!("t={t}: field out of documented range in {d}"));
            }
            if d.unix_time() != t {
                return Err(format!("t={t}: unix_time() of the result is {}", d.unix_time()));
            }
            st.class("converted");
            if cal::is_leap(c.y) && c.mo == 2 && c.d == 29 {
                st.class("feb29");
            }
            if t < 0 {
                st.class("negative_t");
            }
            if st.wants_sample("converted") {
                st.sample("converted", || json!({"t": t, "ns": ns, "expected": format!("{c:?} wd={} yd={yd}", cal::weekday(days)), "got": d.to_string()}));
            }
        }
    }
    // third entry point: the same instant given as a total nanosecond count (only meaningful for nanoseconds below one second)
    if ns < 1_000_000_000 {
        let total = t as i128 * 1_000_000_000 + ns as i128;
        match (&got, UtcDateTime::from_total_nanoseconds(total)) {
            (Ok(a), Ok(b)) if *a == b => {}
            (Err(TzError::OutOfRange), Err(TzError::OutOfRange)) => {}
            (a, b) => return Err(format!("t={t} ns={ns}: from_timespec gives {a:?} but from_total_nanoseconds({total}) gives {b:?}")),
        }
    }
    // second entry point: through the UTC zone
    match (&exp, &got2) {
        (None, Err(TzError::OutOfRange)) => {}
        (None, other) => return Err(format!("t={t}: via UTC zone expected Err(OutOfRange), got {other:?}")),
        (Some(c), Ok(d)) => {
            let f = (d.year() as i64, d.month() as i64, d.month_day() as i64, d.hour() as i64, d.minute() as i64, d.second() as i64);
            if f != (c.y, c.mo, c.d, c.h, c.mi, c.s) || d.nanoseconds() != ns || d.unix_time() != t || d.local_time_type().ut_offset() != 0 {
                return Err(format!("t={t}: via UTC zone got {d} (unix {}), expected {c:?}", d.unix_time()));
            }
            let u = got.as_ref().unwrap();
            if d.week_day() != u.week_day() || d.year_day() != u.year_day() {
                return Err(format!("t={t}: via UTC zone week_day/year_day differ"));
            }
        }
        (Some(c), Err(e)) => return Err(format!("t={t}: via UTC zone refused with {e:?}, expected {c:?}")),
    }
    Ok(())
}

pub fn replay(kind: &str, case: &Value) -> Result<(), String> {
    let _ = kind;
    let c: TsCase = serde_json::from_value(case.clone()).map_err(|e| format!("bad case: {e}"))?;
    check_ts(&c, &mut Stats::new(), false)
}

const SECS_A: [i64; 8] = [0, 1, 59, 60, 3599, 3600, 43199, 86399];

pub fn run(ctx: &Ctx) -> Outcome {
    let mut out = Outcome::new(
        "Timestamps are (a) every day of the 400-year cycle x fixed+random cycle indices x 8 fixed + 2 random seconds of day, (b) every second of 8 chosen days, \
         (c') EVERY 400-year cycle index x 1 March of its four century years and of a year rotating with the index, (c, thorough) every cycle index x 4 further days, (d) range/integer boundaries, (e) proptest mixture (uniform i64, uniform in range, cycle/day/second construction, boundaries) x arbitrary ns. \
         Non-trivial: Feb 28/29, Mar 1, Dec 31, Jan 1, year multiple of 100, negative t off a day boundary, or within 2 days of either end of the supported range (both sides). \
         Enumerated cases are distinct by construction; random ones are counted by distinct hash of (t, ns).",
    );
    out.assumptions = vec![
        "oracle O-cal (era-based civil_from_days/days_from_civil) validated at start-up against a day-by-day odometer over 1600..2400 and periodicity probes".into(),
        "C01 quantifies over all nanosecond values (the full u32 range): the conversion must succeed for every one of them and hand it back unchanged".into(),
    ];
    let (klo, khi) = gens::cycle_range();
    // (a) cycles
    let mut cycles: Vec<i64> = vec![klo, klo + 1, klo + 2, -6, -5, -4, -1, 0, 1, khi - 2, khi - 1, khi];
    {
        let mut dr = Drawer::new(ctx, "a-cycles", 0);
        for _ in 0..ctx.tier.pick(4, 600) {
            cycles.push(dr.draw(&(klo..=khi)));
        }
    }
    let n_shards = 64u64;
    let cycles_ref = &cycles;
    let rs = par_shards(n_shards, |shard, st| {
        let mut dr = Drawer::new(ctx, "a-secs", shard);
        let lo = (gens::DAYS_400Y as u64 * shard / n_shards) as i64;
        let hi = (gens::DAYS_400Y as u64 * (shard + 1) / n_shards) as i64;
        for j in lo..hi {
            for &k in cycles_ref {
                let day = k * gens::DAYS_400Y + j;
                let r1 = dr.draw(&(0..86400i64));
                let r2 = dr.draw(&(0..86400i64));
                for s in SECS_A.iter().copied().chain([r1, r2]) {
                    let t = day as i128 * 86400 + s as i128;
                    if t < i64::MIN as i128 || t > i64::MAX as i128 {
                        continue;
                    }
                    let case = TsCase { t: t as i64, ns: (s as u32).wrapping_mul(11574) };
                    check_enum("ts", &case, st, |c, st| check_ts(c, st, true))?;
                }
            }
        }
        Ok(())
    });
    out.absorb_all(rs);
    if out.failure.is_some() {
        return out;
    }
    // (b) every second of chosen days
    let mut days: Vec<i64> = vec![
        cal::fdiv(cal::min_unix(), 86400),
        cal::fdiv(cal::max_unix(), 86400),
        cal::fdiv(cal::min_unix(), 86400) - 1,
        cal::fdiv(cal::max_unix(), 86400) + 1,
        -1,
        0,
        cal::days_from_civil(2000, 2, 29),
        cal::days_from_civil(2000, 3, 1),
        cal::days_from_civil(1900, 2, 28),
    ];
    {
        let mut dr = Drawer::new(ctx, "b-days", 0);
        for _ in 0..ctx.tier.pick(3, 40) {
            days.push(dr.draw(&(cal::fdiv(cal::min_unix(), 86400)..=cal::fdiv(cal::max_unix(), 86400))));
        }
    }
    let days_ref = &days;
    let rs = par_shards(days.len() as u64, |shard, st| {
        let day = days_ref[shard as usize];
        for s in 0..86400i64 {
            let case = TsCase { t: day * 86400 + s, ns: s as u32 };
            check_enum("ts", &case, st, |c, st| check_ts(c, st, true))?;
        }
        Ok(())
    });
    out.absorb_all(rs);
    if out.failure.is_some() {
        return out;
    }
    // (c') every cycle index (all ~10.7 million 400-year cycles of the i32 year range) x 1 March of the three non-leap century years, of the
    // leap century year and of a year that rotates through the cycle with the index, x {00:00:00, a second rotating with the index}:
    // a shortcut that is valid only for a band of years (a "fast path") cannot hide between the sampled cycles
    {
        let n = 256u64;
        let span = (khi - klo + 1) as u64;
        let mar1: Vec<i64> = (0..400).map(|r| cal::days_from_civil(1970 + r, 3, 1)).collect();
        let mar1 = &mar1;
        let rs = par_shards(n, |shard, st| {
            let lo = klo + (span * shard / n) as i64;
            let hi = klo + (span * (shard + 1) / n) as i64;
            for k in lo..hi {
                let rot = cal::fmod(k, 400) as usize;
                for (i, r) in [130usize, 230, 330, 30, rot].into_iter().enumerate() {
                    let s = if i == 4 { cal::fmod(k * 7919, 86400) } else { 0 };
                    let t = (k * gens::DAYS_400Y + mar1[r]) as i128 * 86400 + s as i128;
                    if t < i64::MIN as i128 || t > i64::MAX as i128 {
                        continue;
                    }
                    let case = TsCase { t: t as i64, ns: 1 };
                    check_enum("ts", &case, st, |c, st| check_ts(c, st, true))?;
                }
            }
            st.class_n("cycle_indices_swept", (hi - lo) as u64);
            Ok(())
        });
        out.absorb_all(rs);
        if out.failure.is_some() {
            return out;
        }
    }
    // (c) thorough: every cycle index x {first day, last day, 29 Feb of the 400-multiple year, a random day} x 2 seconds
    if ctx.tier == Tier::Thorough {
        let n = 256u64;
        let span = (khi - klo + 1) as u64;
        // day-in-cycle of Feb 29 of year 2000 relative to its cycle start
        let feb29 = cal::fmod(cal::days_from_civil(2000, 2, 29), gens::DAYS_400Y);
        let rs = par_shards(n, |shard, st| {
            let mut dr = Drawer::new(ctx, "c-days", shard);
            let lo = klo + (span * shard / n) as i64;
            let hi = klo + (span * (shard + 1) / n) as i64;
            for k in lo..hi {
                let rd = dr.draw(&(0..gens::DAYS_400Y));
                let rs_ = dr.draw(&(0..86400i64));
                for j in [0, gens::DAYS_400Y - 1, feb29, rd] {
                    for s in [86399i64, rs_] {
                        let t = (k * gens::DAYS_400Y + j) as i128 * 86400 + s as i128;
                        if t < i64::MIN as i128 || t > i64::MAX as i128 {
                            continue;
                        }
                        let case = TsCase { t: t as i64, ns: 0 };
                        check_enum("ts", &case, st, |c, st| check_ts(c, st, true))?;
                    }
                }
            }
            Ok(())
        });
        out.absorb_all(rs);
        if out.failure.is_some() {
            return out;
        }
    }
    // (d) boundaries
    let rs = par_shards(1, |_, st| {
        for t in gens::boundary_times() {
            for ns in [0u32, 999_999_999, u32::MAX] {
                check_enum("ts", &TsCase { t, ns }, st, |c, st| check_ts(c, st, true))?;
            }
        }
        Ok(())
    });
    out.absorb_all(rs);
    if out.failure.is_some() {
        return out;
    }
    // (e) proptest mixture
    let strat = (gens::arb_unix_time(), gens::arb_ns()).prop_map(|(t, ns)| TsCase { t, ns });
    let cases = ctx.tier.pick(40_000u32, 2_000_000u32);
    let rs = par_shards(16, |shard, st| pt_shard(ctx, "ts", shard, cases, &strat, st, |c, st| check_ts(c, st, false)));
    out.absorb_all(rs);
    out.extra.insert("exhaustive_note".into(), json!("complete per factor: all 146097 days of the 400-year cycle (at the listed cycle indices), all 86400 seconds of the listed days; thorough adds every cycle index. The cross product is sampled."));
    out
}
