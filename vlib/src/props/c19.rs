//! C19 — feature configurations agree: no_std, alloc and std builds give the same results.
#[path = "../../../cfgprobe/src/transcript.rs"]
pub mod transcript;
#[path = "../../../cfgprobe/src/transcript_alloc.rs"]
pub mod transcript_alloc;
#[path = "../../../nostdprobe/src/probe_core.rs"]
pub mod probe_core;

use crate::gens::{self, ZoneCfg};
use crate::model::MZone;
use crate::run::*;
use proptest::prelude::*;
use serde_json::{json, Value};
use std::path::Path;
use std::process::Command;
use transcript::{ARes, PCase, PZone};

const CONFIGS: [(&str, &[&str]); 3] = [("none", &[]), ("alloc", &["--features", "alloc"]), ("std", &["--features", "std"])];

fn to_pzone(z: &MZone) -> PZone {
    serde_json::from_value(serde_json::to_value(z).unwrap()).expect("model zone and probe zone share their JSON form")
}

/// A probe case that carries nothing but one TZ-value resolution (used by C20 to run its cases in the alloc-only configuration).
pub fn resolution_only_case(r: &crate::props::c20::ResCase) -> PCase {
    use crate::model::{MLtt, MTrailer};
    let z = MZone { trans: vec![], types: vec![MLtt::new(0, false, None)], leaps: vec![], trailer: MTrailer::None };
    let files = r.vfs.iter().map(|(p, c)| (p.clone(), if matches!(c, crate::props::c20::Content::Denied) { None } else { Some(crate::props::c20::bytes_of(c)) })).collect();
    PCase { zone: to_pzone(&z), instants: vec![], civils: vec![], nanos: vec![], buf_len: 0, ares: vec![ARes { tz: r.tz.clone(), dirs: r.dirs.clone(), files }], afiles: vec![] }
}

pub fn arb_case() -> SBoxedStrategy<PCase> {
    (
        prop_oneof![3 => gens::arb_zone(ZoneCfg { max_trans: 10, leaps: true, wide_times: false }), 1 => gens::arb_zone(ZoneCfg { max_trans: 6, leaps: true, wide_times: true }), 2 => gens::arb_aligned_zone(), 1 => gens::arb_many_types_zone(), 1 => gens::arb_leap_adjacent_zone()],
        proptest::collection::vec((gens::arb_unix_time(), gens::arb_ns()), 1..5),
        proptest::collection::vec(prop_oneof![3 => gens::arb_valid_fields(), 1 => gens::arb_fields_perturbed()], 1..5),
        proptest::collection::vec(prop_oneof![2 => any::<i128>().prop_map(|v| v / 1_000_000), 2 => (-9_300_000_000i128..9_300_000_000, prop_oneof![Just(0i128), Just(1i128), Just(999_999_999i128), 0i128..1_000_000_000]).prop_map(|(k, r)| k * 1_000_000_000 + r)], 0..4),
        0usize..4,
        prop_oneof![2 => Just(vec![]), 1 => proptest::collection::vec(crate::props::c20::arb_case(), 1..3)],
        prop_oneof![2 => Just(vec![]), 1 => proptest::collection::vec((crate::props::c08::arb_file_zone(), 1u8..=3, proptest::collection::vec(any::<u32>(), 8), prop_oneof![2 => Just(crate::props::c08::Defect::None), 1 => crate::props::c08::arb_defect()]), 1..3)],
    )
        .prop_map(|(z, mut instants, civils, nanos, buf_len, res, files)| {
            let ares: Vec<ARes> = res
                .iter()
                .map(|r| ARes { tz: r.tz.clone(), dirs: r.dirs.clone(), files: r.vfs.iter().map(|(p, c)| (p.clone(), if matches!(c, crate::props::c20::Content::Denied) { None } else { Some(crate::props::c20::bytes_of(c)) })).collect() })
                .collect();
            let afiles: Vec<Vec<u8>> = files.into_iter().filter_map(|(zone, version, ent, defect)| crate::props::c08::bytes_for(&crate::props::c08::FileCase { zone, version, ent, defect })).collect();
            // instants at the zone's own transitions as well
            for t in z.trans.iter().take(3) {
                instants.push((t.0, 0));
                instants.push((t.0.saturating_sub(1), 999_999_999));
            }
            // civil times shown at those instants
            let mut cv: Vec<(i32, u8, u8, u8, u8, u8, u32)> = civils.iter().map(|f| (f.y, f.mo, f.d, f.h, f.mi, f.s, f.ns)).collect();
            for (t, ti) in z.trans.iter().rev().take(4) {
                let off = z.types.get(*ti).map(|x| x.off).unwrap_or(0);
                let l = (*t as i128 + off as i128 + 1800).clamp(crate::cal::min_unix() as i128, crate::cal::max_unix() as i128);
                let c = crate::cal::civil_from_unix(l);
                if let Some(f) = gens::Fields::from_civil(&c, 1) {
                    cv.push((f.y, f.mo, f.d, f.h, f.mi, f.s, f.ns));
                }
            }
            for (t, _) in z.trans.iter().take(3) {
                let off = z.types.first().map(|x| x.off).unwrap_or(0);
                let l = (*t as i128 + off as i128).clamp(crate::cal::min_unix() as i128, crate::cal::max_unix() as i128);
                let c = crate::cal::civil_from_unix(l);
                if let Some(f) = gens::Fields::from_civil(&c, 1) {
                    cv.push((f.y, f.mo, f.d, f.h, f.mi, f.s, f.ns));
                }
            }
            // the first / last years of the calendar (a DST rule cannot be evaluated there: the search is refused, possibly after a partial result)
            cv.push((i32::MIN + (buf_len as i32 % 3), 6, 1, 12, 0, 0, 0));
            cv.push((i32::MAX - (buf_len as i32 % 3), 6, 1, 12, 0, 0, 0));
            PCase { zone: to_pzone(&z), instants, civils: cv, nanos: nanos.iter().map(|n| n.to_string()).collect(), buf_len, ares, afiles }
        })
        .sboxed()
}

pub fn build_probe(cfg: &str, extra: &[&str]) -> Result<std::path::PathBuf, String> {
    let verif_buf = crate::run::verif_dir();
    let verif = verif_buf.as_path();
    let tdir = verif.join(format!("target/cfgprobe-{cfg}"));
    let log = verif.join(format!("build/c19-build-{cfg}.log"));
    let out = Command::new("cargo")
        .current_dir(verif.join("cfgprobe"))
        .env("CARGO_NET_OFFLINE", "true")
        .args(["build", "--release", "--offline", "--no-default-features"])
        .args(extra)
        .arg("--target-dir")
        .arg(&tdir)
        .output()
        .map_err(|e| format!("cannot run cargo: {e}"))?;
    let _ = std::fs::write(&log, [&out.stdout[..], &out.stderr[..]].concat());
    if !out.status.success() {
        return Err(log.display().to_string());
    }
    Ok(tdir.join("release/cfgprobe"))
}

pub fn run_probe(bin: &Path, corpus: &Path) -> Result<Vec<String>, String> {
    // the probes run with TZ / TZDIR set (the harness does not): no answer may depend on them
    let out = Command::new(bin).arg(corpus).env("TZDIR", "/tzdir-probe").env("TZ", "<+11>-11").output().map_err(|e| format!("cannot run {bin:?}: {e}"))?;
    if !out.status.success() {
        return Err(format!("probe {bin:?} failed: {}", String::from_utf8_lossy(&out.stderr).chars().take(400).collect::<String>()));
    }
    Ok(String::from_utf8_lossy(&out.stdout).lines().map(|s| s.to_string()).collect())
}

fn compare(cases: &[PCase], st: &mut Stats) -> Result<(), Failure> {
    let verif_buf = crate::run::verif_dir();
    let verif = verif_buf.as_path();
    let corpus = verif.join(format!("build/c19-corpus-{}.json", std::process::id()));
    std::fs::write(&corpus, serde_json::to_string(cases).unwrap()).map_err(|e| Failure::new("infra", e.to_string(), json!(null)))?;
    // harness transcript = base part (API without allocation) + "\t#A" + alloc tier (API that needs `alloc`); the feature-less probe prints the base part only
    let own: Vec<String> = cases.iter().map(|c| format!("{}\t#A{}", transcript::transcript(c), transcript_alloc::transcript_alloc(c))).collect();
    let mut all: Vec<(&str, Vec<String>)> = vec![("harness(std)", own)];
    for (cfg, extra) in CONFIGS {
        let bin = match build_probe(cfg, extra) {
            Ok(b) => b,
            Err(log) => {
                // the default configuration builds (the harness itself is linked against it): this configuration alone is broken
                let dst = replay_dir("C19").join(format!("build-{cfg}.log"));
                let _ = std::fs::create_dir_all(replay_dir("C19"));
                let _ = std::fs::copy(&log, &dst);
                let text = std::fs::read_to_string(&log).unwrap_or_default();
                let first = text.lines().filter(|l| l.starts_with("error")).take(2).collect::<Vec<_>>().join(" | ");
                return Err(Failure::new("build", format!("the crate does not build with feature set '{cfg}' (no-default-features {:?}): {first}", extra), json!({"config": cfg, "log": dst.display().to_string()})));
            }
        };
        let t = run_probe(&bin, &corpus).map_err(|e| Failure::new("infra", e, json!(null)))?;
        if t.len() != cases.len() {
            return Err(Failure::new("infra", format!("probe '{cfg}' printed {} lines for {} cases", t.len(), cases.len()), json!(null)));
        }
        all.push((cfg, t));
    }
    let _ = std::fs::remove_file(&corpus);
    for (i, c) in cases.iter().enumerate() {
        st.eval(3);
        for k in 1..all.len() {
            let reference: &str = if all[k].0 == "none" { all[0].1[i].split("\t#A").next().unwrap_or("") } else { &all[0].1[i] };
            if all[k].1[i] != reference {
                let (a, b) = (&reference.to_string(), &all[k].1[i]);
                let pos = a.bytes().zip(b.bytes()).position(|(x, y)| x != y).unwrap_or(a.len().min(b.len()));
                let lo = pos.saturating_sub(60);
                return Err(Failure::new(
                    "probe-case",
                    format!("configuration '{}' and '{}' disagree on case #{i} near byte {pos}: ...{} vs ...{}", all[0].0, all[k].0, &a[lo..(pos + 60).min(a.len())], &b[lo..(pos + 60).min(b.len())]),
                    c.clone(),
                ));
            }
        }
        if !c.ares.is_empty() || !c.afiles.is_empty() {
            st.class("cases_with_alloc_tier_operations");
        }
        if all[0].1[i].contains("zone ok") {
            st.nontrivial(&all[0].1[i]);
            st.class("cases_with_accepted_zone");
        } else {
            st.class("cases_with_refused_zone");
        }
        if st.wants_sample("case") {
            st.sample("case", || json!({"transitions": c.zone.trans.len(), "instants": c.instants.len(), "civils": c.civils.len(), "transcript_head": all[0].1[i].chars().take(200).collect::<String>()}));
        }
    }
    Ok(())
}

/// Builds the #![no_std], allocator-free static library around tz-rs (no features) and links it into a C program.
fn build_nostd() -> Result<std::path::PathBuf, Failure> {
    let verif = crate::run::verif_dir();
    let tdir = verif.join("target/nostdprobe");
    let log = verif.join("build/c19-build-nostd.log");
    let fail = |what: &str, text: &[u8]| {
        let _ = std::fs::write(&log, text);
        let dst = replay_dir("C19").join("build-nostd.log");
        let _ = std::fs::create_dir_all(replay_dir("C19"));
        let _ = std::fs::copy(&log, &dst);
        let t = String::from_utf8_lossy(text);
        let first = t.lines().filter(|l| l.starts_with("error") || l.contains("undefined reference")).take(2).collect::<Vec<_>>().join(" | ");
        Failure::new("build", format!("tz-rs without features cannot be {what} a #![no_std] program that has no global allocator: {first}"), json!({"config": "nostd", "log": dst.display().to_string()}))
    };
    let out = Command::new("cargo")
        .current_dir(verif.join("nostdprobe"))
        .env("CARGO_NET_OFFLINE", "true")
        .args(["build", "--release", "--offline", "--target-dir"])
        .arg(&tdir)
        .output()
        .map_err(|e| Failure::new("infra", format!("cannot run cargo: {e}"), json!(null)))?;
    if !out.status.success() {
        return Err(fail("compiled into", &[&out.stdout[..], &out.stderr[..]].concat()));
    }
    let bin = verif.join(format!("build/nostdprobe_bin-{}", std::process::id()));
    let out = Command::new("gcc")
        .arg("-O1")
        .arg(verif.join("nostdprobe/driver.c"))
        .arg(tdir.join("release/libnostdprobe.a"))
        .arg("-o")
        .arg(&bin)
        .output()
        .map_err(|e| Failure::new("infra", format!("cannot run gcc: {e}"), json!(null)))?;
    if !out.status.success() {
        return Err(fail("linked into", &[&out.stdout[..], &out.stderr[..]].concat()));
    }
    Ok(bin)
}

fn nostd_compare(bin: &Path, recs: &[[i64; 10]], st: &mut Stats) -> Result<(), Failure> {
    let verif = crate::run::verif_dir();
    let path = verif.join(format!("build/c19-nostd-{}.bin", std::process::id()));
    let flat: Vec<i64> = recs.iter().flatten().copied().collect();
    let bytes: Vec<u8> = flat.iter().flat_map(|v| v.to_le_bytes()).collect();
    std::fs::write(&path, bytes).map_err(|e| Failure::new("infra", e.to_string(), json!(null)))?;
    let out = Command::new(bin).arg(&path).output().map_err(|e| Failure::new("infra", format!("cannot run {bin:?}: {e}"), json!(null)))?;
    let _ = std::fs::remove_file(&path);
    let mut own = String::new();
    probe_core::run_records(&flat, &mut own).map_err(|_| Failure::new("infra", "formatting into a String failed", json!(null)))?;
    let own: Vec<&str> = own.lines().collect();
    if !out.status.success() {
        // the no_std program aborted (its panic handler calls abort) or could not hold its output: find the record by bisection
        if recs.len() == 1 {
            return Err(Failure::new("nostd-record", format!("the allocator-free no_std program dies ({:?}) on record {:?}; the std harness prints: {}", out.status, recs[0], own.first().unwrap_or(&"")), json!(recs[0])));
        }
        let (a, b) = recs.split_at(recs.len() / 2);
        nostd_compare(bin, a, st)?;
        return nostd_compare(bin, b, st);
    }
    let text = String::from_utf8_lossy(&out.stdout);
    let got: Vec<&str> = text.lines().collect();
    if got.len() != recs.len() || own.len() != recs.len() {
        return Err(Failure::new("infra", format!("no_std probe printed {} lines, harness {} for {} records", got.len(), own.len(), recs.len()), json!(null)));
    }
    for (i, r) in recs.iter().enumerate() {
        st.eval(1);
        if got[i] != own[i] {
            return Err(Failure::new("nostd-record", format!("record {r:?}: the allocator-free no_std build prints\n  {}\nthe std build prints\n  {}", got[i], own[i]), json!(r)));
        }
        if !own[i].contains("ERR") {
            st.nontrivial(&own[i]);
            st.class(match r[0].rem_euclid(3) {
                0 => "nostd_instant_records",
                1 => "nostd_search_records",
                _ => "nostd_nanosecond_records",
            });
            if own[i].contains("OutOfRange B[") {
                st.class("nostd_search_refused_after_partial_result");
            }
        }
        if st.wants_sample("nostd_record") {
            st.sample("nostd_record", || json!({"record": r, "transcript": own[i].chars().take(240).collect::<String>()}));
        }
    }
    Ok(())
}

pub fn arb_record() -> SBoxedStrategy<[i64; 10]> {
    let near = |c: i64| (c - 4000..c + 4000).sboxed();
    let instant = prop_oneof![
        3 => gens::arb_unix_time(),
        2 => proptest::sample::select(vec![1_615_705_200i64, 1_636_264_800, 1_616_893_200, 1_635_642_000, 100_000_000, 78_796_800, 94_694_401, 126_230_402, 0, -84_387_600, -68_666_400]).prop_flat_map(|c| (c - 3..=c + 3)),
        1 => near(1_615_705_200),
        1 => near(1_636_264_800),
    ];
    let year = prop_oneof![4 => 1960i64..2040, 2 => gens::arb_year().prop_map(|y| y as i64), 2 => proptest::sample::select(vec![i32::MIN as i64, i32::MIN as i64 + 1, i32::MIN as i64 + 2, i32::MAX as i64 - 2, i32::MAX as i64 - 1, i32::MAX as i64, 2021, 1967, 1973])];
    let fields = prop_oneof![
        3 => (year, 1i64..=12, 1i64..=28, 0i64..24, 0i64..60, 0i64..=60),
        2 => (Just(2021i64), Just(3i64), Just(14i64), 1i64..4, 0i64..60, 0i64..=60),
        2 => (Just(2021i64), Just(11i64), Just(7i64), 0i64..3, 0i64..60, 0i64..=60),
        1 => (proptest::sample::select(vec![2021i64, 2024, 1967]), prop_oneof![Just(3i64), Just(10i64), Just(4i64)], 24i64..=31, 0i64..4, 0i64..60, 0i64..=60),
        1 => (1960i64..2040, 0i64..14, 0i64..33, 0i64..26, 0i64..62, 0i64..63),
    ];
    (0i64..3, 0i64..6, instant, prop_oneof![3 => gens::arb_ns().prop_map(|n| n as i64), 1 => Just(0i64), 1 => Just(999_999_999i64)], fields, 0i64..4, any::<i64>(), any::<i64>(), any::<bool>())
        .prop_map(|(kind, zone, t, ns, (y, mo, d, h, mi, s), n, a, b, neg)| match kind {
            1 => [1, zone, y, mo, d, h, mi, s, n + 4 * (a.rem_euclid(1000)), b],
            2 => [2, zone, t.clamp(-9_000_000_000_000_000_000 / 1_000_000_000 * 1_000_000_000, i64::MAX), if neg { -ns } else { ns }, 0, 0, 0, 0, a, b],
            _ => [0, zone, t, ns, 0, 0, 0, 0, a, b],
        })
        .sboxed()
}

pub fn replay(kind: &str, case: &Value) -> Result<(), String> {
    if kind == "nostd-record" {
        let r: [i64; 10] = serde_json::from_value(case.clone()).map_err(|e| e.to_string())?;
        let bin = build_nostd().map_err(|f| f.summary)?;
        let res = nostd_compare(&bin, &[r], &mut Stats::new()).map_err(|f| f.summary);
        let _ = std::fs::remove_file(&bin);
        return res;
    }
    if kind == "build" && case["config"].as_str() == Some("nostd") {
        return build_nostd().map(|b| { let _ = std::fs::remove_file(b); }).map_err(|f| f.summary);
    }
    match kind {
        "build" => {
            let cfg = case["config"].as_str().unwrap_or("none");
            let extra = CONFIGS.iter().find(|c| c.0 == cfg).map(|c| c.1).unwrap_or(&[]);
            build_probe(cfg, extra).map(|_| ()).map_err(|log| format!("feature set '{cfg}' does not build (see {log})"))
        }
        _ => {
            let c: PCase = serde_json::from_value(case.clone()).map_err(|e| e.to_string())?;
            compare(&[c], &mut Stats::new()).map_err(|f| f.summary)
        }
    }
}

/// Zones sharing the rule days and times but not the offsets (US rule over four offsets), searched in the same year one after the
/// other on one thread: a memo keyed on too little would serve one zone's instants to the next.
fn us_family_case(k: usize) -> PCase {
    use crate::model::{MDay, MLtt, MRule, MTrailer};
    let off = [-18000, -21600, -25200, -28800][k % 4];
    let std = MLtt::new(off, false, Some(["EST", "CST", "MST", "PST"][k % 4]));
    let dst = MLtt::new(off + 3600, true, Some(["EDT", "CDT", "MDT", "PDT"][k % 4]));
    let rule = MRule { std: std.clone(), dst: dst.clone(), start: MDay::M(3, 2, 0), start_time: 7200, end: MDay::M(11, 1, 0), end_time: 7200 };
    let z = MZone { trans: vec![], types: vec![std, dst], leaps: vec![], trailer: MTrailer::Alt(rule.clone()) };
    let y = 2021;
    let (s, e) = (rule.s(y), rule.e(y));
    PCase {
        zone: to_pzone(&z),
        instants: vec![(s - 1, 0), (s, 0), (e - 1, 0), (e, 0)],
        civils: vec![(y as i32, 3, 14, 2, 30, 0, 0), (y as i32, 3, 14, 1, 59, 59, 0), (y as i32, 3, 14, 3, 0, 0, 0), (y as i32, 11, 7, 1, 30, 0, 0), (y as i32, 11, 7, 0, 59, 59, 0), (y as i32, 11, 7, 2, 0, 0, 0)],
        nanos: vec![],
        buf_len: 3,
        ares: vec![],
        afiles: vec![],
    }
}

/// A valid zone with one C13-style defect: every configuration must refuse it with the same error.
fn defective(mut c: PCase, kind: u32) -> PCase {
    match kind % 6 {
        0 => {
            if let Some(l) = c.zone.leaps.first_mut() {
                l.1 = 27;
            } else {
                c.zone.leaps.push((1_483_228_826, 27));
            }
        }
        1 => c.zone.leaps.insert(0, (0, 0)),
        2 => {
            if let Some(t) = c.zone.trans.first_mut() {
                t.1 = usize::MAX;
            }
        }
        3 => {
            if c.zone.trans.len() >= 2 {
                c.zone.trans[1].0 = c.zone.trans[0].0;
            }
        }
        4 => c.zone.leaps = vec![(10, 1), (20, 2)],
        _ => c.zone.leaps = vec![(-1, 1)],
    }
    c
}

pub fn run(ctx: &Ctx) -> Outcome {
    let mut out = Outcome::new(
        "One generated corpus of cases (zone of any shape incl. leap tables, zic-aligned tables and i64-wide times; instants from the unix-time mixture plus the zone's own transitions -1/0; civil times valid / single-defect / shown at the transitions; total-nanosecond counts; buffer lengths 0..3) is run through a probe binary built three times against tz-rs with features {}, {alloc}, {alloc,std} \
         (the probe uses only API that exists without `alloc`: TimeZoneRef, LocalTimeType, rule types, UtcDateTime, DateTime incl. find_n and projection, Display - also with width / precision / fill specs - through a fixed-size fmt::Write buffer) and through the same transcript function inside the std harness; the per-case transcripts must be identical. One case in three also carries alloc-tier operations - TZ values resolved through TimeZoneSettings over an in-memory file system (C20's generator: paths opened, in order, and the result) and generated TZif files (C08's generator, with and without a defect) decoded with from_tz_data - whose transcripts must agree between the {alloc} build, the {alloc,std} build and the harness. \
         One case in eight carries a zone defect (all configurations must refuse alike); four cases in sixteen are zones sharing rule days/times but not offsets, searched back to back. A configuration that does not build while the default one does is a violation (replay = build log). \
         In addition the same probe logic (nostdprobe/src/probe_core.rs: 6 zones incl. table+rule, negative DST, leap table, parameterised offsets; instants, searches through find_n with fresh / reused buffers incl. the buffer contents after a refusal, total-nanosecond counts, Display with width/precision) runs inside an allocator-free #![no_std] static library linked into a C program, on generated records, and must print what the std harness prints. Non-trivial: cases whose zone is accepted (lookups, searches and renderings actually executed).",
    );
    out.assumptions = vec![
        "'needs neither an allocator nor the standard library' is checked on the host: tz-rs without features is compiled into a #![no_std] static library that defines no global allocator (rustc refuses to produce it if any linked crate needs one) and linked into a C program with gcc (fails on any unresolved std / allocator symbol); that program's transcript must equal the std harness's for every record. No bare-metal target is installed".into(),
    ];
    let n = ctx.tier.pick(30_000usize, 400_000usize);
    let mut dr = Drawer::new(ctx, "corpus", 0);
    let strat = arb_case();
    let mut st = Stats::new();
    let batch = 10_000usize;
    let mut done = 0usize;
    while done < n {
        let k = batch.min(n - done);
        let cases: Vec<PCase> = (0..k)
            .map(|i| {
                // every 16 cases: four zones of the same-rule family in a row; one case in eight carries a defect
                if i % 16 < 4 {
                    us_family_case(i)
                } else {
                    let c = dr.draw(&strat);
                    if i % 8 == 7 {
                        defective(c, i as u32 / 8)
                    } else {
                        c
                    }
                }
            })
            .collect();
        if let Err(f) = compare(&cases, &mut st) {
            out.failure = Some(f);
            break;
        }
        done += k;
    }
    out.stats.merge(st);
    if out.failure.is_some() {
        return out;
    }
    // the crate without features inside a #![no_std] static library with no global allocator, linked into a C program
    let mut st = Stats::new();
    match build_nostd() {
        Err(f) => out.failure = Some(f),
        Ok(bin) => {
            let n = ctx.tier.pick(60_000usize, 1_500_000usize);
            let mut dr = Drawer::new(ctx, "nostd", 0);
            let strat = arb_record();
            let mut done = 0usize;
            // fixed records first: year limits in the table+rule zone (a search refused after a partial result), gap, fold
            let mut recs: Vec<[i64; 10]> = vec![];
            for zone in 0..6 {
                for y in [i32::MIN as i64, i32::MIN as i64 + 1, i32::MIN as i64 + 2, i32::MAX as i64 - 1, i32::MAX as i64] {
                    for n in 0..4 {
                        for reuse in 0..2 {
                            recs.push([1, zone, y, 6, 1, 12, 0, 0, n, reuse]);
                            recs.push([1, zone, y, 12, 31, 23, 59, 60, n, reuse]);
                            recs.push([1, zone, y, 1, 1, 0, 0, 0, n, reuse]);
                        }
                    }
                }
            }
            while done < n {
                while recs.len() < 20_000.min(n - done).max(1) {
                    recs.push(dr.draw(&strat));
                }
                if let Err(f) = nostd_compare(&bin, &recs, &mut st) {
                    out.failure = Some(f);
                    break;
                }
                done += recs.len();
                recs.clear();
            }
            let _ = std::fs::remove_file(&bin);
        }
    }
    out.stats.merge(st);
    out
}
