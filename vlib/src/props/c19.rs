//! C19 — feature configurations agree: no_std, alloc and std builds give the same results.
#[path = "../../../cfgprobe/src/transcript.rs"]
pub mod transcript;

use crate::gens::{self, ZoneCfg};
use crate::model::MZone;
use crate::run::*;
use proptest::prelude::*;
use serde_json::{json, Value};
use std::path::Path;
use std::process::Command;
use transcript::{PCase, PZone};

const CONFIGS: [(&str, &[&str]); 3] = [("none", &[]), ("alloc", &["--features", "alloc"]), ("std", &["--features", "std"])];

fn to_pzone(z: &MZone) -> PZone {
    serde_json::from_value(serde_json::to_value(z).unwrap()).expect("model zone and probe zone share their JSON form")
}

pub fn arb_case() -> SBoxedStrategy<PCase> {
    (
        prop_oneof![3 => gens::arb_zone(ZoneCfg { max_trans: 10, leaps: true, wide_times: false }), 1 => gens::arb_zone(ZoneCfg { max_trans: 6, leaps: true, wide_times: true }), 2 => gens::arb_aligned_zone(), 1 => gens::arb_many_types_zone(), 1 => gens::arb_leap_adjacent_zone()],
        proptest::collection::vec((gens::arb_unix_time(), gens::arb_ns()), 1..5),
        proptest::collection::vec(prop_oneof![3 => gens::arb_valid_fields(), 1 => gens::arb_fields_perturbed()], 1..5),
        proptest::collection::vec(prop_oneof![2 => any::<i128>().prop_map(|v| v / 1_000_000), 2 => (-9_300_000_000i128..9_300_000_000, prop_oneof![Just(0i128), Just(1i128), Just(999_999_999i128), 0i128..1_000_000_000]).prop_map(|(k, r)| k * 1_000_000_000 + r)], 0..4),
        0usize..4,
    )
        .prop_map(|(z, mut instants, civils, nanos, buf_len)| {
            // instants at the zone's own transitions as well
            for t in z.trans.iter().take(3) {
                instants.push((t.0, 0));
                instants.push((t.0.saturating_sub(1), 999_999_999));
            }
            // civil times shown at those instants
            let mut cv: Vec<(i32, u8, u8, u8, u8, u8, u32)> = civils.iter().map(|f| (f.y, f.mo, f.d, f.h, f.mi, f.s, f.ns)).collect();
            for (t, ti) in z.trans.iter().rev().take(4) {
                let off = z.types.get(*ti).map(|x| x.off).unwrap_or(0);
                let l = (*t as i128 + off as i128 + 1800).clamp(crate::cal::min_unix() as i128, crate::cal::max_unix() as i128);
                let c = crate::cal::civil_from_unix(l);
                if let Some(f) = gens::Fields::from_civil(&c, 1) {
                    cv.push((f.y, f.mo, f.d, f.h, f.mi, f.s, f.ns));
                }
            }
            for (t, _) in z.trans.iter().take(3) {
                let off = z.types.first().map(|x| x.off).unwrap_or(0);
                let l = (*t as i128 + off as i128).clamp(crate::cal::min_unix() as i128, crate::cal::max_unix() as i128);
                let c = crate::cal::civil_from_unix(l);
                if let Some(f) = gens::Fields::from_civil(&c, 1) {
                    cv.push((f.y, f.mo, f.d, f.h, f.mi, f.s, f.ns));
                }
            }
            PCase { zone: to_pzone(&z), instants, civils: cv, nanos: nanos.iter().map(|n| n.to_string()).collect(), buf_len }
        })
        .sboxed()
}

fn build_probe(cfg: &str, extra: &[&str]) -> Result<std::path::PathBuf, String> {
    let verif_buf = crate::run::verif_dir();
    let verif = verif_buf.as_path();
    let tdir = verif.join(format!("target/cfgprobe-{cfg}"));
    let log = verif.join(format!("build/c19-build-{cfg}.log"));
    let out = Command::new("cargo")
        .current_dir(verif.join("cfgprobe"))
        .env("CARGO_NET_OFFLINE", "true")
        .args(["build", "--release", "--offline", "--no-default-features"])
        .args(extra)
        .arg("--target-dir")
        .arg(&tdir)
        .output()
        .map_err(|e| format!("cannot run cargo: {e}"))?;
    let _ = std::fs::write(&log, [&out.stdout[..], &out.stderr[..]].concat());
    if !out.status.success() {
        return Err(log.display().to_string());
    }
    Ok(tdir.join("release/cfgprobe"))
}

fn run_probe(bin: &Path, corpus: &Path) -> Result<Vec<String>, String> {
    let out = Command::new(bin).arg(corpus).output().map_err(|e| format!("cannot run {bin:?}: {e}"))?;
    if !out.status.success() {
        return Err(format!("probe {bin:?} failed: {}", String::from_utf8_lossy(&out.stderr).chars().take(400).collect::<String>()));
    }
    Ok(String::from_utf8_lossy(&out.stdout).lines().map(|s| s.to_string()).collect())
}

fn compare(cases: &[PCase], st: &mut Stats) -> Result<(), Failure> {
    let verif_buf = crate::run::verif_dir();
    let verif = verif_buf.as_path();
    let corpus = verif.join(format!("build/c19-corpus-{}.json", std::process::id()));
    std::fs::write(&corpus, serde_json::to_string(cases).unwrap()).map_err(|e| Failure::new("infra", e.to_string(), json!(null)))?;
    let own: Vec<String> = cases.iter().map(transcript::transcript).collect();
    let mut all: Vec<(&str, Vec<String>)> = vec![("harness(std)", own)];
    for (cfg, extra) in CONFIGS {
        let bin = match build_probe(cfg, extra) {
            Ok(b) => b,
            Err(log) => {
                // the default configuration builds (the harness itself is linked against it): this configuration alone is broken
                let dst = replay_dir("C19").join(format!("build-{cfg}.log"));
                let _ = std::fs::create_dir_all(replay_dir("C19"));
                let _ = std::fs::copy(&log, &dst);
                let text = std::fs::read_to_string(&log).unwrap_or_default();
                let first = text.lines().filter(|l| l.starts_with("error")).take(2).collect::<Vec<_>>().join(" | ");
                return Err(Failure::new("build", format!("the crate does not build with feature set '{cfg}' (no-default-features {:?}): {first}", extra), json!({"config": cfg, "log": dst.display().to_string()})));
            }
        };
        let t = run_probe(&bin, &corpus).map_err(|e| Failure::new("infra", e, json!(null)))?;
        if t.len() != cases.len() {
            return Err(Failure::new("infra", format!("probe '{cfg}' printed {} lines for {} cases", t.len(), cases.len()), json!(null)));
        }
        all.push((cfg, t));
    }
    let _ = std::fs::remove_file(&corpus);
    for (i, c) in cases.iter().enumerate() {
        st.eval(3);
        for k in 1..all.len() {
            if all[k].1[i] != all[0].1[i] {
                let (a, b) = (&all[0].1[i], &all[k].1[i]);
                let pos = a.bytes().zip(b.bytes()).position(|(x, y)| x != y).unwrap_or(a.len().min(b.len()));
                let lo = pos.saturating_sub(60);
                return Err(Failure::new(
                    "probe-case",
                    format!("configuration '{}' and '{}' disagree on case #{i} near byte {pos}: ...{} vs ...{}", all[0].0, all[k].0, &a[lo..(pos + 60).min(a.len())], &b[lo..(pos + 60).min(b.len())]),
                    c.clone(),
                ));
            }
        }
        if all[0].1[i].contains("zone ok") {
            st.nontrivial(&all[0].1[i]);
            st.class("cases_with_accepted_zone");
        } else {
            st.class("cases_with_refused_zone");
        }
        if st.wants_sample("case") {
            st.sample("case", || json!({"transitions": c.zone.trans.len(), "instants": c.instants.len(), "civils": c.civils.len(), "transcript_head": all[0].1[i].chars().take(200).collect::<String>()}));
        }
    }
    Ok(())
}

pub fn replay(kind: &str, case: &Value) -> Result<(), String> {
    match kind {
        "build" => {
            let cfg = case["config"].as_str().unwrap_or("none");
            let extra = CONFIGS.iter().find(|c| c.0 == cfg).map(|c| c.1).unwrap_or(&[]);
            build_probe(cfg, extra).map(|_| ()).map_err(|log| format!("feature set '{cfg}' does not build (see {log})"))
        }
        _ => {
            let c: PCase = serde_json::from_value(case.clone()).map_err(|e| e.to_string())?;
            compare(&[c], &mut Stats::new()).map_err(|f| f.summary)
        }
    }
}

/// Zones sharing the rule days and times but not the offsets (US rule over four offsets), searched in the same year one after the
/// other on one thread: a memo keyed on too little would serve one zone's instants to the next.
fn us_family_case(k: usize) -> PCase {
    use crate::model::{MDay, MLtt, MRule, MTrailer};
    let off = [-18000, -21600, -25200, -28800][k % 4];
    let std = MLtt::new(off, false, Some(["EST", "CST", "MST", "PST"][k % 4]));
    let dst = MLtt::new(off + 3600, true, Some(["EDT", "CDT", "MDT", "PDT"][k % 4]));
    let rule = MRule { std: std.clone(), dst: dst.clone(), start: MDay::M(3, 2, 0), start_time: 7200, end: MDay::M(11, 1, 0), end_time: 7200 };
    let z = MZone { trans: vec![], types: vec![std, dst], leaps: vec![], trailer: MTrailer::Alt(rule.clone()) };
    let y = 2021;
    let (s, e) = (rule.s(y), rule.e(y));
    PCase {
        zone: to_pzone(&z),
        instants: vec![(s - 1, 0), (s, 0), (e - 1, 0), (e, 0)],
        civils: vec![(y as i32, 3, 14, 2, 30, 0, 0), (y as i32, 3, 14, 1, 59, 59, 0), (y as i32, 3, 14, 3, 0, 0, 0), (y as i32, 11, 7, 1, 30, 0, 0), (y as i32, 11, 7, 0, 59, 59, 0), (y as i32, 11, 7, 2, 0, 0, 0)],
        nanos: vec![],
        buf_len: 3,
    }
}

/// A valid zone with one C13-style defect: every configuration must refuse it with the same error.
fn defective(mut c: PCase, kind: u32) -> PCase {
    match kind % 6 {
        0 => {
            if let Some(l) = c.zone.leaps.first_mut() {
                l.1 = 27;
            } else {
                c.zone.leaps.push((1_483_228_826, 27));
            }
        }
        1 => c.zone.leaps.insert(0, (0, 0)),
        2 => {
            if let Some(t) = c.zone.trans.first_mut() {
                t.1 = usize::MAX;
            }
        }
        3 => {
            if c.zone.trans.len() >= 2 {
                c.zone.trans[1].0 = c.zone.trans[0].0;
            }
        }
        4 => c.zone.leaps = vec![(10, 1), (20, 2)],
        _ => c.zone.leaps = vec![(-1, 1)],
    }
    c
}

pub fn run(ctx: &Ctx) -> Outcome {
    let mut out = Outcome::new(
        "One generated corpus of cases (zone of any shape incl. leap tables, zic-aligned tables and i64-wide times; instants from the unix-time mixture plus the zone's own transitions -1/0; civil times valid / single-defect / shown at the transitions; total-nanosecond counts; buffer lengths 0..3) is run through a probe binary built three times against tz-rs with features {}, {alloc}, {alloc,std} \
         (the probe uses only API that exists without `alloc`: TimeZoneRef, LocalTimeType, rule types, UtcDateTime, DateTime incl. find_n and projection, Display - also with width / precision / fill specs - through a fixed-size fmt::Write buffer) and through the same transcript function inside the std harness; the per-case transcripts must be identical. \
         One case in eight carries a zone defect (all configurations must refuse alike); four cases in sixteen are zones sharing rule days/times but not offsets, searched back to back. A configuration that does not build while the default one does is a violation (replay = build log). Non-trivial: cases whose zone is accepted (lookups, searches and renderings actually executed).",
    );
    out.assumptions = vec![
        "no bare-metal target is installed: 'needs no allocator / standard library' is checked as 'compiles as a no_std crate without the alloc feature and gives the same answers on the host'".into(),
    ];
    let n = ctx.tier.pick(30_000usize, 400_000usize);
    let mut dr = Drawer::new(ctx, "corpus", 0);
    let strat = arb_case();
    let mut st = Stats::new();
    let batch = 10_000usize;
    let mut done = 0usize;
    while done < n {
        let k = batch.min(n - done);
        let cases: Vec<PCase> = (0..k)
            .map(|i| {
                // every 16 cases: four zones of the same-rule family in a row; one case in eight carries a defect
                if i % 16 < 4 {
                    us_family_case(i)
                } else {
                    let c = dr.draw(&strat);
                    if i % 8 == 7 {
                        defective(c, i as u32 / 8)
                    } else {
                        c
                    }
                }
            })
            .collect();
        if let Err(f) = compare(&cases, &mut st) {
            out.failure = Some(f);
            break;
        }
        done += k;
    }
    out.stats.merge(st);
    out
}
