//! C06 — see search.rs (shared generator and model for C05 / C06 / C14 / C17; this module selects the assertions of C06).
use crate::run::*;
use crate::search::{self, Focus};
use serde_json::Value;

pub fn run(ctx: &Ctx) -> Outcome {
    search::run_search(ctx, Focus::C06, RULE)
}

pub fn replay(_kind: &str, case: &Value) -> Result<(), String> {
    search::replay_search(Focus::C06, case)
}

const RULE: &str = "Same zone x local-time space as C05 (gap edges T+a-1, T+a, T+b-1, T+b for every table and rule event, the table/rule junction, dense zones with overlapping gaps and folds). Oracle: O-zone event list: exactly one Skipped entry for every event with off_after > off_before and T+off_before <= L < T+off_after, built from T on the clock before and after; \
no other gap entry; the last table event is ignored without trailer; whole list strictly ascending by instant; earliest()/latest() are the first/last entries and bound all; unique() iff the list is exactly one valid entry. Non-trivial: at least one gap entry, or local time within 1 s of an event's clock interval.";
