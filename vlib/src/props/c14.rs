//! C14 — zoned date-time denotes one instant; fields match it; projection preserves it.
//! The invariant monitor (dtinv::check_dt) also runs inside C03 / C05 / C06 / C17 on every produced value.
use crate::cal;
use crate::dtinv::check_dt;
use crate::gens::{self, Fields, ZoneCfg};
use crate::model::{MLtt, MTrailer, MZone};
use crate::ozone::{Fwd, ZoneModel};
use crate::run::*;
use crate::search::{self, Focus};
use proptest::prelude::*;
use serde::{Deserialize, Serialize};
use serde_json::{json, Value};
use std::cmp::Ordering;
use tz::datetime::FoundDateTimeKind;
use tz::{DateTime, TzError, UtcDateTime};

#[derive(Debug, Clone, Serialize, Deserialize, Hash)]
pub struct NewCase {
    pub f: Fields,
    pub ltt: MLtt,
}

pub fn check_new(c: &NewCase, st: &mut Stats) -> Result<(), String> {
    st.eval(1);
    let f = &c.f;
    let ltt = c.ltt.to_tz().map_err(|e| format!("{e:?}"))?;
    let got = DateTime::new(f.y, f.mo, f.d, f.h, f.mi, f.s, f.ns, ltt);
    if !f.valid() {
        st.class("invalid_fields");
        st.nontrivial(c);
        return match got {
            Err(TzError::DateTime(_)) => Ok(()),
            other => Err(format!("{c:?}: not a real date/time but DateTime::new gave {other:?}")),
        };
    }
    let unix = f.civil_secs() - c.ltt.off as i128;
    let in_range = unix >= cal::min_unix() as i128 && unix <= cal::max_unix() as i128;
    let edge = (unix - cal::min_unix() as i128).abs() <= 70 * 366 * 86400 || (unix - cal::max_unix() as i128).abs() <= 70 * 366 * 86400;
    if f.s == 60 || c.ltt.off.abs() > 86400 || edge {
        st.nontrivial(c);
    }
    match got {
        Ok(d) => {
            if !in_range {
                return Err(format!("{c:?}: instant {unix} is outside the supported range but DateTime::new accepted it"));
            }
            if d.unix_time() as i128 != unix || d.nanoseconds() != f.ns || (d.year(), d.month(), d.month_day(), d.hour(), d.minute(), d.second()) != (f.y, f.mo, f.d, f.h, f.mi, f.s) || !c.ltt.same_as(d.local_time_type()) {
                return Err(format!("{c:?}: DateTime::new gives {d} with unix {}", d.unix_time()));
            }
            check_dt(&d)?;
            st.class("new_ok");
            if f.s == 60 {
                st.class("second_60");
            }
            // the same instant through the other constructors compares equal and has the same instant
            // (23:59:60 of the last representable day denotes a civil second beyond the calendar: the instant-based constructors legitimately refuse it)
            let local = unix + c.ltt.off as i128;
            if local > cal::max_unix() as i128 || local < cal::min_unix() as i128 {
                st.class("second_60_beyond_calendar_end");
                return Ok(());
            }
            let e = DateTime::from_timespec_and_local(unix as i64, f.ns, ltt).map_err(|e| format!("{c:?}: from_timespec_and_local refused: {e:?}"))?;
            check_dt(&e)?;
            if e != d || e.partial_cmp(&d) != Some(Ordering::Equal) || e.unix_time() != d.unix_time() {
                return Err(format!("{c:?}: same instant built two ways compares unequal"));
            }
            if f.s < 60 && (e.year(), e.month(), e.month_day(), e.hour(), e.minute(), e.second()) != (f.y, f.mo, f.d, f.h, f.mi, f.s) {
                return Err(format!("{c:?}: from_timespec_and_local gives fields {e}"));
            }
            let t = DateTime::from_total_nanoseconds_and_local(unix * 1_000_000_000 + f.ns as i128, ltt).map_err(|e| format!("{c:?}: from_total_nanoseconds_and_local refused: {e:?}"))?;
            check_dt(&t)?;
            if t != d {
                return Err(format!("{c:?}: from_total_nanoseconds_and_local differs"));
            }
        }
        Err(TzError::OutOfRange) => {
            if in_range {
                return Err(format!("{c:?}: instant {unix} is inside the supported range but DateTime::new refused"));
            }
            st.class("new_refused_range");
        }
        Err(e) => return Err(format!("{c:?}: unexpected error {e:?}")),
    }
    Ok(())
}

#[derive(Debug, Clone, Serialize, Deserialize, Hash)]
pub struct TsCase {
    pub u: i64,
    pub ns: u32,
    pub ltt: MLtt,
}

pub fn check_ts(c: &TsCase, st: &mut Stats) -> Result<(), String> {
    st.eval(1);
    let ltt = c.ltt.to_tz().map_err(|e| format!("{e:?}"))?;
    let local = c.u as i128 + c.ltt.off as i128;
    let ok = local >= cal::min_unix() as i128 && local <= cal::max_unix() as i128;
    let edge = (local - cal::min_unix() as i128).abs() <= 3 * 86400 || (local - cal::max_unix() as i128).abs() <= 3 * 86400;
    if edge || c.ltt.off.abs() > 86400 {
        st.nontrivial(c);
    }
    let r = DateTime::from_timespec_and_local(c.u, c.ns, ltt);
    if c.ns >= 1_000_000_000 {
        // pass-through today; a refusal of out-of-range nanoseconds would be equally compatible with C14
        st.class("nanoseconds_beyond_one_second_not_asserted");
        if let Ok(d) = &r {
            check_dt(d)?;
        }
        return Ok(());
    }
    match r {
        Ok(d) => {
            if !ok {
                return Err(format!("{c:?}: instant + offset leaves the supported range but was accepted: {d}"));
            }
            let cv = cal::civil_from_unix(local);
            if (d.year() as i64, d.month() as i64, d.month_day() as i64, d.hour() as i64, d.minute() as i64, d.second() as i64) != (cv.y, cv.mo, cv.d, cv.h, cv.mi, cv.s) || d.unix_time() != c.u || d.nanoseconds() != c.ns {
                return Err(format!("{c:?}: from_timespec_and_local gives {d} (unix {}), expected {cv:?}", d.unix_time()));
            }
            check_dt(&d)?;
            st.class("ts_ok");
        }
        Err(TzError::OutOfRange) => {
            if ok {
                return Err(format!("{c:?}: instant + offset is representable but was refused"));
            }
            st.class("ts_refused");
        }
        Err(e) => return Err(format!("{c:?}: unexpected error {e:?}")),
    }
    Ok(())
}

#[derive(Debug, Clone, Serialize, Deserialize, Hash)]
pub struct ProjCase {
    pub zone_a: MZone,
    pub zone_b: MZone,
    pub us: Vec<(i64, u32)>,
}

/// projection keeps (unix, ns), yields the target zone's type and fields; pools: ==/ordering depend only on (unix, ns)
pub fn check_proj(c: &ProjCase, st: &mut Stats) -> Result<(), String> {
    let za = c.zone_a.to_tz().map_err(|e| format!("zone a refused: {e:?}"))?;
    let zb = c.zone_b.to_tz().map_err(|e| format!("zone b refused: {e:?}"))?;
    let mb = ZoneModel::new(&c.zone_b);
    let mut pool: Vec<DateTime> = vec![];
    for &(u, ns) in &c.us {
        st.eval(1);
        let a = match DateTime::from_timespec(u, ns, za.as_ref()) {
            Ok(a) => a,
            Err(_) => continue,
        };
        check_dt(&a)?;
        pool.push(a);
        let exp = mb.forward(u);
        match (a.project(zb.as_ref()), exp) {
            (Ok(b), Fwd::Type(t)) => {
                check_dt(&b)?;
                if b.unix_time() != u || b.nanoseconds() != ns {
                    return Err(format!("projection changed the instant: ({u},{ns}) -> ({}, {})", b.unix_time(), b.nanoseconds()));
                }
                if !mb.ltt(t).same_as(b.local_time_type()) {
                    return Err(format!("projection of instant {u} into zone b has type {:?}, expected {:?}", b.local_time_type(), mb.ltt(t)));
                }
                if a != b || a.partial_cmp(&b) != Some(Ordering::Equal) {
                    return Err(format!("the same instant seen from two zones compares unequal: {a} vs {b}"));
                }
                st.nontrivial(&(u, ns, &c.zone_b));
                st.class("projected");
                pool.push(b);
                // UtcDateTime::project agrees
                if let Ok(ud) = UtcDateTime::from_timespec(u, ns) {
                    let p = ud.project(zb.as_ref()).map_err(|e| format!("UtcDateTime::project failed: {e:?}"))?;
                    if p != b || p.local_time_type() != b.local_time_type() || p.year() != b.year() || p.hour() != b.hour() {
                        return Err(format!("UtcDateTime::project gives {p}, DateTime::project {b}"));
                    }
                }
            }
            (Ok(b), Fwd::Unspecified) => {
                check_dt(&b)?;
            }
            (Err(_), Fwd::Type(t)) => {
                let local = u as i128 + mb.ltt(t).off as i128;
                if local >= cal::min_unix() as i128 && local <= cal::max_unix() as i128 {
                    return Err(format!("projection of {u} into zone b refused although representable"));
                }
            }
            (Err(_), _) => {}
            (Ok(b), e) => return Err(format!("projection of {u} gave {b} but the model says {e:?}")),
        }
    }
    // members built from fields with second 60 (same instant as the next minute's second 0), in both zones' first types
    for &(u, ns) in c.us.iter().take(3) {
        for z in [&c.zone_a, &c.zone_b] {
            let off = z.types[0].off;
            let local = u as i128 + off as i128;
            // the civil second before `local`, searched as hh:mm:60 when it is hh:mm:59
            let cv = cal::civil_from_unix(local - 1);
            if cv.s == 59 && local - 1 >= cal::min_unix() as i128 && local <= cal::max_unix() as i128 {
                if let (Ok(ltt), Ok(y)) = (z.types[0].to_tz(), i32::try_from(cv.y)) {
                    if let Ok(d) = DateTime::new(y, cv.mo as u8, cv.d as u8, cv.h as u8, cv.mi as u8, 60, ns % 1_000_000_000, ltt) {
                        check_dt(&d)?;
                        if d.unix_time() != u {
                            return Err(format!("DateTime::new(..:60) at local {cv:?} offset {off} has unix {} expected {u}", d.unix_time()));
                        }
                        st.class("pool_member_with_second_60");
                        pool.push(d);
                    }
                }
            }
        }
    }
    // comparison claims over all pairs of the pool (+ ns neighbours)
    let extra: Vec<DateTime> = pool.iter().filter_map(|d| DateTime::from_timespec_and_local(d.unix_time(), d.nanoseconds().wrapping_add(1) % 1_000_000_000, *d.local_time_type()).ok()).take(4).collect();
    pool.extend(extra);
    for x in &pool {
        for y in &pool {
            st.eval(1);
            let kx = (x.unix_time(), x.nanoseconds());
            let ky = (y.unix_time(), y.nanoseconds());
            if (x == y) != (kx == ky) {
                return Err(format!("== disagrees with (unix, ns): {x} ({kx:?}) vs {y} ({ky:?})"));
            }
            if x.partial_cmp(y) != Some(kx.cmp(&ky)) {
                return Err(format!("partial_cmp disagrees with (unix, ns) order: {x} ({kx:?}) vs {y} ({ky:?})"));
            }
        }
    }
    Ok(())
}

#[derive(Debug, Clone, Serialize, Deserialize, Hash)]
pub struct EdgeCase {
    pub ltt: MLtt,
    /// 0: pure fixed zone (no trailer), 1: Fixed trailer only, 2: one transition + Fixed trailer
    pub shape: u8,
    /// which end (false = minimum) and distance of the civil time from that end, in seconds (can be negative: beyond the end)
    pub top: bool,
    pub dist: i64,
}

/// searches at the edges of the supported range: entries must stay inside it, refusals are OutOfRange
pub fn check_edge(c: &EdgeCase, st: &mut Stats) -> Result<(), String> {
    st.eval(1);
    let l = if c.top { cal::max_unix() as i128 - c.dist as i128 } else { cal::min_unix() as i128 + c.dist as i128 };
    if l < cal::min_unix() as i128 || l > cal::max_unix() as i128 {
        st.exclude("civil time itself outside the calendar");
        return Ok(());
    }
    let f = Fields::from_civil(&cal::civil_from_unix(l), 1).ok_or("fields")?;
    let other = MLtt::new(0, false, Some("OTH"));
    let z = match c.shape {
        0 => MZone { trans: vec![], types: vec![c.ltt.clone()], leaps: vec![], trailer: MTrailer::None },
        1 => MZone { trans: vec![], types: vec![c.ltt.clone()], leaps: vec![], trailer: MTrailer::Fixed(c.ltt.clone()) },
        _ => MZone { trans: vec![(0, 1)], types: vec![other, c.ltt.clone()], leaps: vec![], trailer: MTrailer::Fixed(c.ltt.clone()) },
    };
    let tzv = z.to_tz().map_err(|e| format!("edge zone refused: {e:?}"))?;
    let u = l - c.ltt.off as i128;
    let in_range = u >= cal::min_unix() as i128 && u <= cal::max_unix() as i128;
    st.nontrivial(c);
    let got = DateTime::find(f.y, f.mo, f.d, f.h, f.mi, f.s, f.ns, tzv.as_ref());
    match got {
        Ok(list) => {
            for k in list.into_inner() {
                let ds = match k {
                    FoundDateTimeKind::Normal(d) => vec![d],
                    FoundDateTimeKind::Skipped { before_transition, after_transition } => vec![before_transition, after_transition],
                };
                for d in ds {
                    check_dt(&d)?;
                    if d.unix_time() < cal::min_unix() || d.unix_time() > cal::max_unix() {
                        return Err(format!("{c:?}: search for {f:?} returned {d} whose instant {} lies outside the supported range [{}, {}] (construction from fields must be refused there)", d.unix_time(), cal::min_unix(), cal::max_unix()));
                    }
                }
            }
            if !in_range && c.shape < 2 {
                return Err(format!("{c:?}: the only candidate instant {u} is outside the supported range but the search succeeded"));
            }
            st.class("edge_ok");
        }
        Err(TzError::OutOfRange) => {
            if in_range && c.shape < 2 {
                return Err(format!("{c:?}: candidate instant {u} is inside the supported range but the search refused"));
            }
            st.class("edge_refused");
        }
        Err(e) => return Err(format!("{c:?}: unexpected error {e:?}")),
    }
    Ok(())
}

pub fn replay(kind: &str, case: &Value) -> Result<(), String> {
    let mut st = Stats::new();
    let e = |e: serde_json::Error| e.to_string();
    match kind {
        "new" => check_new(&serde_json::from_value(case.clone()).map_err(e)?, &mut st),
        "ts" => check_ts(&serde_json::from_value(case.clone()).map_err(e)?, &mut st),
        "proj" => check_proj(&serde_json::from_value(case.clone()).map_err(e)?, &mut st),
        "edge" => check_edge(&serde_json::from_value(case.clone()).map_err(e)?, &mut st),
        "clock" => crate::clock::check_clock(&serde_json::from_value(case.clone()).map_err(e)?, false, true, &mut st),
        "badns" => {
            let (c, ns, f): (search::SearchCase, u32, Fields) = serde_json::from_value(case.clone()).map_err(e)?;
            let tzv = c.zone.to_tz().map_err(|e| format!("{e:?}"))?;
            match DateTime::find(f.y, f.mo, f.d, f.h, f.mi, f.s, ns, tzv.as_ref()) {
                Ok(l) if l.clone().into_inner().iter().any(|k| matches!(k, FoundDateTimeKind::Normal(d) if d.nanoseconds() >= 1_000_000_000)) => Err(format!("find with nanoseconds {ns} returned a value carrying them")),
                _ => Ok(()),
            }
        }
        _ => search::replay_search(Focus::C14, case),
    }
}

pub fn run(ctx: &Ctx) -> Outcome {
    let mut out = Outcome::new(
        "Every constructor: DateTime::new over valid / single-defect fields x local time types with full-i32 offsets (cross-checked against from_timespec_and_local and from_total_nanoseconds_and_local); from_timespec_and_local over the unix-time mixture; projection between two generated zones (target type and fields from the O-zone model, (unix, ns) preserved, equality across zones); \
         pools of date-times x all pairs for ==/partial_cmp; searches at both ends of the supported range in fixed-offset zones of three shapes; DateTime::now / UtcDateTime::now on zones switching within seconds of the clock reading (instant inside the harness's clock bracket, type = the model's there); and the invariant monitor over every entry (incl. both halves of gap entries) of the C05 search run. \
         Non-trivial: second 60, |offset| > 1 day, instant within 70 years of a range end, projected instants, range-edge searches.",
    );
    out.assumptions = vec!["from_timespec_and_local accepts instants outside the UTC range as long as instant + offset is representable (documented behaviour); DateTime::new and the search require the instant itself inside the range".into()];
    let cases = ctx.tier.pick(75_000u32, 1_000_000u32);
    let s_new = (prop_oneof![4 => gens::arb_valid_fields(), 1 => gens::arb_fields_perturbed()], gens::arb_ltt_wide()).prop_map(|(f, ltt)| NewCase { f, ltt });
    let rs = par_shards(16, |shard, st| pt_shard(ctx, "new", shard, cases, &s_new, st, check_new));
    out.absorb_all(rs);
    if out.failure.is_some() {
        return out;
    }
    // DateTime::new near both range ends: fields within +- 70 years of the ends x wide offsets
    let s_new_edge = (any::<bool>(), -2_300_000_000i64..2_300_000_000, gens::arb_ltt_wide(), any::<bool>()).prop_map(|(top, dist, ltt, s60)| {
        let l = if top { cal::max_unix() as i128 - dist.abs() as i128 } else { cal::min_unix() as i128 + dist.abs() as i128 };
        let mut f = Fields::from_civil(&cal::civil_from_unix(l), 999_999_999).unwrap();
        if s60 && f.s == 59 {
            f.s = 60;
        }
        NewCase { f, ltt }
    });
    let rs = par_shards(16, |shard, st| pt_shard(ctx, "new", 50 + shard, cases, &s_new_edge, st, check_new));
    out.absorb_all(rs);
    if out.failure.is_some() {
        return out;
    }
    let s_ts = (gens::arb_unix_time(), gens::arb_ns(), gens::arb_ltt_wide()).prop_map(|(u, ns, ltt)| TsCase { u, ns, ltt });
    let rs = par_shards(16, |shard, st| pt_shard(ctx, "ts", 100 + shard, cases, &s_ts, st, check_ts));
    out.absorb_all(rs);
    if out.failure.is_some() {
        return out;
    }
    let zc = ZoneCfg { max_trans: 8, leaps: true, wide_times: false };
    let s_proj = (gens::arb_zone(zc), gens::arb_zone(zc), proptest::collection::vec((prop_oneof![3 => -3_000_000_000i64..5_000_000_000, 1 => gens::arb_unix_time()], gens::arb_valid_ns()), 1..8)).prop_map(|(zone_a, zone_b, us)| ProjCase { zone_a, zone_b, us });
    let cases_p = ctx.tier.pick(12_000u32, 120_000u32);
    let rs = par_shards(16, |shard, st| pt_shard(ctx, "proj", 200 + shard, cases_p, &s_proj, st, check_proj));
    out.absorb_all(rs);
    if out.failure.is_some() {
        return out;
    }
    let s_edge = (gens::arb_ltt_wide(), 0u8..3, any::<bool>(), prop_oneof![3 => -10i64..200_000, 2 => 0i64..2_200_000_000, 1 => 0i64..100]).prop_map(|(ltt, shape, top, dist)| EdgeCase { ltt, shape, top, dist });
    let rs = par_shards(16, |shard, st| pt_shard(ctx, "edge", 300 + shard, cases, &s_edge, st, check_edge));
    out.absorb_all(rs);
    if out.failure.is_some() {
        return out;
    }
    // a search given nanoseconds >= 1e9 must not hand out a date-time carrying them (zones with a table / a rule, not only fixed ones)
    let s_badns = (search::arb_search_case(8, 4), 1_000_000_000u32..=u32::MAX, gens::arb_valid_fields());
    let rs = par_shards(8, |shard, st| {
        pt_shard(ctx, "badns", 500 + shard, ctx.tier.pick(3_000u32, 60_000u32), &s_badns, st, |(c, ns, f), st| {
            st.eval(1);
            st.nontrivial(&(&c.zone, *ns, *f));
            let tzv = match c.zone.to_tz() {
                Ok(t) => t,
                Err(_) => return Ok(()),
            };
            let mut buf = [None; 2];
            let r1 = DateTime::find(f.y, f.mo, f.d, f.h, f.mi, f.s, *ns, tzv.as_ref()).map(|l| l.into_inner());
            let r2 = DateTime::find_n(&mut buf, f.y, f.mo, f.d, f.h, f.mi, f.s, *ns, tzv.as_ref()).map(|l| l.data().to_vec());
            for (name, r) in [("find", r1.map(|v| v.into_iter().map(Some).collect::<Vec<_>>())), ("find_n", r2)] {
                if let Ok(v) = r {
                    for k in v.into_iter().flatten() {
                        let ds = match k {
                            FoundDateTimeKind::Normal(d) => vec![d],
                            FoundDateTimeKind::Skipped { before_transition, after_transition } => vec![before_transition, after_transition],
                        };
                        for d in ds {
                            if d.nanoseconds() >= 1_000_000_000 {
                                return Err(format!("{name} with nanoseconds {ns} in zone {:?} returned {d} whose nanoseconds are {} (fields are validated in the search: such a value must be refused)", c.zone, d.nanoseconds()));
                            }
                        }
                    }
                }
            }
            Ok(())
        })
    });
    out.absorb_all(rs);
    if out.failure.is_some() {
        return out;
    }
    // DateTime::now / UtcDateTime::now on zones that switch around the clock reading (instant inside the harness's clock bracket, fields
    // and type = the model's at that instant)
    let strat_c = crate::clock::arb_clock_case();
    let rs = par_shards(8, |shard, st| pt_shard(ctx, "clock", 700 + shard, ctx.tier.pick(4_000u32, 60_000u32), &strat_c, st, |c, st| crate::clock::check_clock(c, false, true, st)));
    out.absorb_all(rs);
    if out.failure.is_some() {
        return out;
    }
    // the monitor over search results (same generator as C05)
    let cases_s = ctx.tier.pick(3_000u32, 60_000u32);
    let strat = search::arb_search_case(12, 32);
    let rs = par_shards(16, |shard, st| pt_shard(ctx, "search", 400 + shard, cases_s, &strat, st, |c, st| search::check_search(c, Focus::C14, st)));
    out.absorb_all(rs);
    let _ = json!(null);
    out
}
