//! C09 — POSIX TZ string decoding follows the grammar, its defaults and sign conventions.
use crate::model::{MDay, MLtt, MRule};
use crate::orule::{self, Class};
use crate::run::*;
use crate::tzif;
use crate::tzstr::{self, HmsSpell, TzEval};
use proptest::prelude::*;
use serde::{Deserialize, Serialize};
use serde_json::{json, Value};
use tz::timezone::{TimeZone, TimeZoneSettings, TransitionRule};

#[derive(Debug, Clone, Serialize, Deserialize, Hash)]
pub struct StrCase {
    /// the TZ description as bytes (JSON: array of numbers, so that non-UTF-8 survives)
    pub s: Vec<u8>,
}

fn fail_read(_path: &str) -> Result<Vec<u8>, Box<dyn std::error::Error + Send + Sync + 'static>> {
    Err("no file system in this check".into())
}

/// Expected decoded value for one observation path.
fn expected(s: &[u8], ext: bool) -> Result<TzEval, String> {
    let t = tzstr::trim_ascii_ws(s);
    let v = tzstr::parse(t, ext)?;
    // the rule must also be accepted by the rule constructor (C11): predicted by the 400-year oracle
    if let TzEval::Alt(r) = &v {
        if orule::classify(r) == Class::Unstable {
            return Err("sentence, but start/end order flips between years (InconsistentRule)".into());
        }
    }
    Ok(v)
}

fn to_rule(v: &TzEval) -> Result<TransitionRule, String> {
    Ok(match v {
        TzEval::Fixed(l) => TransitionRule::Fixed(l.to_tz().map_err(|e| format!("{e:?}"))?),
        TzEval::Alt(r) => TransitionRule::Alternate(r.to_tz().map_err(|e| format!("{e:?}"))?),
    })
}

pub fn check_str(c: &StrCase, st: &mut Stats, exact: bool) -> Result<(), String> {
    let s = &c.s;
    let shown = String::from_utf8_lossy(s).to_string();
    let e_off = expected(s, false);
    let e_on = expected(s, true);
    let mode_dependent = e_off.is_ok() != e_on.is_ok();
    let has_dst = matches!(e_on, Ok(TzEval::Alt(_)));
    let nt = has_dst || mode_dependent;
    if nt {
        if exact {
            st.nontrivial_exact(1);
        } else {
            st.nontrivial(c);
        }
    }
    if mode_dependent {
        st.class("mode_dependent");
    }
    st.class(match (&e_off, &e_on) {
        (Ok(TzEval::Fixed(_)), _) => "sentence_fixed",
        (Ok(TzEval::Alt(_)), _) => "sentence_dst",
        (Err(_), Ok(_)) => "sentence_ext_only",
        (Err(_), Err(_)) => "non_sentence",
    });
    // path 1: settings (extensions off), only for UTF-8 strings
    if let Ok(text) = std::str::from_utf8(s) {
        st.eval(1);
        let settings = TimeZoneSettings::new(&[], fail_read);
        let got = settings.parse_posix_tz(text);
        cmp("settings (extensions off)", &shown, &e_off, got.as_ref().ok().map(|z| z.as_ref().extra_rule().clone()), got.as_ref().err().map(|e| format!("{e:?}")))?;
        if let (Ok(z), Ok(v)) = (&got, &e_off) {
            // zone built from the rule-derived types, no transitions
            let want_types: Vec<MLtt> = match v {
                TzEval::Fixed(l) => vec![l.clone()],
                TzEval::Alt(r) => vec![r.std.clone(), r.dst.clone()],
            };
            let zr = z.as_ref();
            if !zr.transitions().is_empty() || !zr.leap_seconds().is_empty() || zr.local_time_types().len() != want_types.len() || !zr.local_time_types().iter().zip(&want_types).all(|(a, b)| b.same_as(a)) {
                return Err(format!("TZ string {shown:?}: zone built by the settings path has unexpected parts: {z:?}"));
            }
        }
    }
    // paths 2 and 3: v2 footer (off) and v3 footer (on)
    for (ver, exp) in [(2u8, &e_off), (3u8, &e_on)] {
        st.eval(1);
        let file = tzif::footer_file(ver, s);
        let got = TimeZone::from_tz_data(&file);
        let trimmed = tzstr::trim_ascii_ws(s);
        if trimmed.is_empty() && !s.contains(&0) && std::str::from_utf8(s).is_ok() {
            // empty footer: a zone without rule
            match &got {
                Ok(z) if z.as_ref().extra_rule().is_none() => {}
                other => return Err(format!("empty footer {shown:?} (v{ver}): expected a zone without rule, got {other:?}")),
            }
            continue;
        }
        cmp(&format!("v{ver} footer"), &shown, exp, got.as_ref().ok().map(|z| z.as_ref().extra_rule().clone()), got.as_ref().err().map(|e| format!("{e:?}")))?;
    }
    if st.wants_sample(if has_dst { "dst_sentence" } else { "other" }) {
        st.sample(if has_dst { "dst_sentence" } else { "other" }, || json!({"string": shown, "extensions_off": format!("{:?}", e_off.as_ref().map(|_| "accept").map_err(|e| e.clone())), "extensions_on": format!("{:?}", e_on.as_ref().map(|_| "accept").map_err(|e| e.clone()))}));
    }
    Ok(())
}

fn cmp(path: &str, shown: &str, exp: &Result<TzEval, String>, got_rule: Option<Option<TransitionRule>>, got_err: Option<String>) -> Result<(), String> {
    match (exp, got_rule) {
        (Ok(v), Some(Some(r))) => {
            let want = to_rule(v).map_err(|e| format!("TZ string {shown:?} via {path}: oracle value not constructible ({e}) but the crate accepted it as {r:?}"))?;
            if r != want {
                return Err(format!("TZ string {shown:?} via {path}: decoded to {r:?}, expected {want:?}"));
            }
            // ... and read through its accessors (primitive values only, nothing leans on the crate's `==`): the getters of the decoded
            // rule must spell the oracle's value itself
            let seen = match &r {
                TransitionRule::Fixed(l) => TzEval::Fixed(crate::model::MLtt::from_tz(l)),
                TransitionRule::Alternate(a) => TzEval::Alt(crate::model::MRule::from_tz(a)),
            };
            if format!("{seen:?}") != format!("{v:?}") {
                return Err(format!("TZ string {shown:?} via {path}: the decoded rule's accessors read {seen:?}, the string denotes {v:?}"));
            }
            Ok(())
        }
        (Ok(v), Some(None)) => Err(format!("TZ string {shown:?} via {path}: accepted without a rule, expected {v:?}")),
        (Ok(v), None) => Err(format!("TZ string {shown:?} via {path}: is a sentence denoting {v:?} but was refused with {}", got_err.unwrap_or_default())),
        (Err(why), Some(r)) => Err(format!("TZ string {shown:?} via {path}: not a complete match of the grammar in this mode ({why}) but was accepted as {r:?}")),
        (Err(_), None) => Ok(()),
    }
}

pub fn replay(_kind: &str, case: &Value) -> Result<(), String> {
    check_str(&serde_json::from_value(case.clone()).map_err(|e| e.to_string())?, &mut Stats::new(), false)
}

const TOKENS: [&str; 24] = ["AAA", "<-03>", "BB", "+", "-", "0", "1", "5", "24", "25", "60", "167", "365", "366", ":", ",", "/", "J", "M", ".", " ", "J60", "M3.2.0", "M13.1.0"];

// ---- sentence generator ----------------------------------------------------------------------

fn arb_spell() -> SBoxedStrategy<HmsSpell> {
    (any::<bool>(), 1u8..=3, prop_oneof![4 => Just(0u8), 2 => 1u8..3, 1 => Just(12u8)], 0u8..2, 0u8..2).prop_map(|(plus, fields, zh, zm, zs)| HmsSpell { plus, fields, zh, zm, zs }).sboxed()
}

fn arb_tz_name() -> SBoxedStrategy<(String, bool)> {
    prop_oneof![
        3 => (proptest::collection::vec(proptest::sample::select(b"ABCXYZabcxyz".to_vec()), 3..=7), any::<bool>()).prop_map(|(v, q)| (String::from_utf8(v).unwrap(), q)),
        2 => proptest::collection::vec(proptest::sample::select(b"AZaz09+-".to_vec()), 3..=7).prop_map(|v| (String::from_utf8(v).unwrap(), true)),
        1 => proptest::sample::select(vec![("UTC", false), ("EST", false), ("+03", true), ("-0330", true), ("ABCDEFG", false)]).prop_map(|(s, q)| (s.to_string(), q)),
    ]
    .sboxed()
}

/// (neg, h, m, s) for offsets: h 0..=24
fn arb_off_hms() -> SBoxedStrategy<(bool, u32, u32, u32)> {
    (any::<bool>(), prop_oneof![3 => 0u32..=24, 1 => Just(24u32), 1 => Just(0u32)], prop_oneof![2 => Just(0u32), 1 => 0u32..60, 1 => Just(59u32), 1 => Just(30u32)], prop_oneof![3 => Just(0u32), 1 => 0u32..60, 1 => Just(59u32)]).sboxed()
}

fn arb_time_hms(ext: bool) -> SBoxedStrategy<(bool, u32, u32, u32)> {
    let h = if ext { prop_oneof![3 => 0u32..=24, 2 => 25u32..=167, 1 => Just(167u32)].sboxed() } else { prop_oneof![3 => 0u32..=24, 1 => Just(24u32), 1 => Just(2u32)].sboxed() };
    (if ext { any::<bool>().sboxed() } else { Just(false).sboxed() }, h, prop_oneof![3 => Just(0u32), 1 => 0u32..60, 1 => Just(59u32)], prop_oneof![3 => Just(0u32), 1 => 0u32..60, 1 => Just(59u32)]).sboxed()
}

fn arb_day() -> SBoxedStrategy<MDay> {
    prop_oneof![
        2 => prop_oneof![1u16..=365, Just(1u16), Just(365u16), Just(59u16), Just(60u16)].prop_map(MDay::J1),
        2 => prop_oneof![0u16..=365, Just(0u16), Just(365u16)].prop_map(MDay::J0),
        3 => (1u8..=12, 1u8..=5, 0u8..=6).prop_map(|(m, w, d)| MDay::M(m, w, d)),
    ]
    .sboxed()
}

/// A well-formed sentence (in the given mode) as a string.
pub fn arb_sentence(ext: bool) -> SBoxedStrategy<String> {
    let rule = (arb_day(), proptest::option::weighted(0.6, (arb_time_hms(ext), arb_spell())), 0u8..2);
    (arb_tz_name(), arb_off_hms(), arb_spell(), proptest::option::weighted(0.75, (arb_tz_name(), proptest::option::weighted(0.5, (arb_off_hms(), arb_spell())), rule.clone(), rule)))
        .prop_map(move |((sn, sq), (neg, h, m, s), sp, dst)| {
            let mut out = tzstr::spell_name(&sn, sq);
            out.push_str(&tzstr::spell_hms(neg, h, m, s, &sp, true));
            if let Some(((dn, dq), doff, (d1, t1, z1), (d2, t2, z2))) = dst {
                out.push_str(&tzstr::spell_name(&dn, dq));
                if let Some(((neg, h, m, s), sp)) = doff {
                    // an offset directly after an alphabetic name needs no separator; after a quoted one neither
                    out.push_str(&tzstr::spell_hms(neg, h, m, s, &sp, true));
                }
                for (d, t, z) in [(d1, t1, z1), (d2, t2, z2)] {
                    out.push(',');
                    out.push_str(&tzstr::spell_day(&d, z));
                    if let Some(((neg, h, m, s), sp)) = t {
                        out.push('/');
                        out.push_str(&tzstr::spell_hms(neg, h, m, s, &sp, ext));
                    }
                }
            }
            out
        })
        .sboxed()
}

/// one-character mutation of a sentence
fn arb_mutant() -> SBoxedStrategy<Vec<u8>> {
    (prop_oneof![arb_sentence(false), arb_sentence(true)], any::<u32>(), 0u8..3, proptest::sample::select(b"+-0123456789:,/.JM<> AZaz\t\n\0\x80".to_vec()))
        .prop_map(|(s, pos, op, ch)| {
            let mut b = s.into_bytes();
            if b.is_empty() {
                return b;
            }
            let i = idx(pos, b.len());
            match op {
                0 => {
                    b.remove(i);
                }
                1 => b.insert(i, ch),
                _ => b[i] = ch,
            }
            b
        })
        .sboxed()
}

/// a sentence in which one number is replaced by a value that wraps onto it in a narrower integer type (n + 2^8, 2^16, 2^32), or that gets
/// one character of Unicode / control white space attached to an end (only ASCII white space may be stripped)
pub fn arb_wrap_or_space() -> SBoxedStrategy<Vec<u8>> {
    (prop_oneof![arb_sentence(false), arb_sentence(true)], any::<u32>(), 0u8..11, proptest::sample::select(vec!["\u{b}", "\u{85}", "\u{a0}", "\u{2003}", "\u{2028}", "\u{3000}", "\u{1c}", "\u{feff}", "\u{200b}"]), any::<bool>())
        .prop_map(|(s, pos, kind, ws, front)| {
            if kind < 8 {
                // find the digit runs
                let b = s.as_bytes();
                let mut runs = vec![];
                let mut i = 0;
                while i < b.len() {
                    if b[i].is_ascii_digit() {
                        let st = i;
                        while i < b.len() && b[i].is_ascii_digit() {
                            i += 1;
                        }
                        runs.push((st, i));
                    } else {
                        i += 1;
                    }
                }
                if runs.is_empty() {
                    return s.into_bytes();
                }
                let (a, e) = runs[idx(pos, runs.len())];
                let v: u128 = s[a..e].parse().unwrap_or(0);
                let add: u128 = [256, 65_536, 4_294_967_296, 600_000, 2_147_000_000, 268_435_456, 536_870_912, 1_073_741_824][kind as usize];
                format!("{}{}{}", &s[..a], v + add, &s[e..]).into_bytes()
            } else if front {
                format!("{ws}{s}").into_bytes()
            } else {
                format!("{s}{ws}").into_bytes()
            }
        })
        .sboxed()
}

pub fn run(ctx: &Ctx) -> Outcome {
    let mut out = Outcome::new(
        "(a) grammar-directed sentences with independent spelling choices (optional '+', '-', 0-12 leading zeros, h / h:m / h:m:s, boundary values 24, 24:59:59, 167, alphabetic vs quoted names of length 3..7, each optional part present/absent, three day notations at range ends) in both modes; \
         (b) BOUNDED-EXHAUSTIVE: every sequence of <= 5 tokens over a 24-token alphabet (8.3e6 strings); (c) single-character deletions / insertions / replacements of sentences (incl. NUL, tab, newline, a non-UTF-8 byte); each string observed through three paths: TimeZoneSettings::parse_posix_tz (extensions off, file lookups fail), a generated v2 footer (off), a generated v3 footer (on). \
         Oracle: independent recursive-descent recogniser/evaluator (complete match, defaults, sign conventions) + the 400-year order oracle for InconsistentRule. Non-trivial: the string is a sentence with a DST part in some mode, or its acceptance depends on the mode.",
    );
    out.assumptions = vec![
        "both observation layers strip surrounding ASCII whitespace before decoding (C20 / C08 territory): the oracle is applied to the stripped string; an all-whitespace footer is a zone without rule".into(),
        "numbers are digit runs of any length, range-checked after evaluation (a run too long for the crate's integer type is out of range either way)".into(),
    ];
    // oracle self-test: generated sentences are sentences for the recogniser
    {
        let mut dr = Drawer::new(ctx, "selftest", 0);
        for ext in [false, true] {
            let g = arb_sentence(ext);
            for _ in 0..2000 {
                let s = dr.draw(&g);
                if let Err(e) = tzstr::parse(s.as_bytes(), ext) {
                    out.failure = Some(Failure::new("infra", format!("O-tzstr self-test: generated sentence {s:?} (ext={ext}) refused by the recogniser: {e}"), json!(s)));
                    return out;
                }
            }
        }
    }
    // fixed regression strings (IANA footers and the crate's documented examples)
    let fixed = ["UTC0", "EST5EDT,M3.2.0,M11.1.0", "CET-1CEST,M3.5.0,M10.5.0/3", "<-03>3<-02>,M3.5.0/-2,M10.5.0/-1", "IST-2IDT,M3.4.4/26,M10.5.0", "EST5EDT,0/0,J365/25", "HST10", "<+0330>-3:30", "AAA-0:30", "NZST-12NZDT,M9.5.0,M4.1.0/3", "WGT3WGST,M3.5.0/-2,M10.5.0/-1", "AAA0BBB", "AAA0BBB1", "AAA0BBB,J1", "AAA", "AAA24:59:59", "AAA25", " AAA0 ", "AAA0BBB,M259.1.0,J300", "AAA0BBB,J65537,J300", "AAA0BBB,65536,J300", "AAA0BBB,M3.257.0,J300", "AAA0BBB,M3.1.256,J300", "EST5\u{b}", "\u{a0}EST5", "AAA0BBB,J1/24,J300/24:00:00", "AAA256", "AAA0:256", "<EST\0>5", "<\0EST>5", "AAA0BBB,JM3.2.0,M11.1.0", "AAA0BBB,M3.2.0/600000,M11.1.0", "AAA0BBB,M3.2.0/268435456,M11.1.0", "AAA0BBB,M3.2.0/268435458,M11.1.0/-1", "AAA0000000003", "AAA3BBB,J0000000060,M0000000010.1.0", "AAA0BBB,M3.2.0/596523:59:59,M11.1.0", "AAA0BBB,M3.2.0/-2147483647,M11.1.0", "AAA0BBB-2,J3/-72,J364/120", "EST+5EDT,M3.2.0/2:00:00,M11.1.0/2:00:00x", "EST5EDT,M3.2,M11.1.0", "EST5EDT,M3.2.0,M11.1", "EST5EDT,M3,M11.1.0", "EST5EDT,M3.,M11.1.0", "EST5EDT,M3.2.,M11.1.0", "<-03>3<-02>,M3.5/1,M10.5.0", "EST5EDT,M3.2.0.1,M11.1.0", "EST5EDT,J60.1,J300", "AAA-0:30", "<+0030>-0:30", "WAT-0:44:30", "XXX-0:45YYY,M3.2.0,M11.1.0", "XXX0YYY,M3.2.0/-0:30,M11.1.0/-0:00:01", "XXX0YYY-0:00:01,M3.2.0,M11.1.0"];
    let rs = par_shards(1, |_, st| {
        for s in fixed {
            check_enum("str", &StrCase { s: s.as_bytes().to_vec() }, st, |c, st| check_str(c, st, true))?;
        }
        Ok(())
    });
    out.absorb_all(rs);
    if out.failure.is_some() {
        return out;
    }
    // (b) bounded-exhaustive token strings
    let max_tokens = 5usize;
    let n = TOKENS.len() as u64;
    let rs = par_shards(n * n, |shard, st| {
        let (a, b) = ((shard / n) as usize, (shard % n) as usize);
        // lengths 1 and 2 handled by the shards with b == 0 / all
        if b == 0 {
            check_enum("str", &StrCase { s: TOKENS[a].as_bytes().to_vec() }, st, |c, st| check_str(c, st, true))?;
        }
        let head = format!("{}{}", TOKENS[a], TOKENS[b]);
        check_enum("str", &StrCase { s: head.as_bytes().to_vec() }, st, |c, st| check_str(c, st, true))?;
        for len in 1..=max_tokens - 2 {
            let total = (n as usize).pow(len as u32);
            for k in 0..total {
                let mut s = head.clone();
                let mut kk = k;
                for _ in 0..len {
                    s.push_str(TOKENS[kk % n as usize]);
                    kk /= n as usize;
                }
                check_enum("str", &StrCase { s: s.into_bytes() }, st, |c, st| check_str(c, st, true))?;
            }
        }
        Ok(())
    });
    out.absorb_all(rs);
    if out.failure.is_some() {
        return out;
    }
    out.extra.insert("exhaustive_note".into(), json!("complete for all token sequences of length <= 5 over the 24-token alphabet; sentences and mutations sampled"));
    // (a) sentences, both modes
    let cases = ctx.tier.pick(40_000u32, 1_500_000u32);
    for (k, ext) in [false, true].into_iter().enumerate() {
        let strat = arb_sentence(ext).prop_map(|s| StrCase { s: s.into_bytes() });
        let rs = par_shards(8, |shard, st| pt_shard(ctx, "str", (k as u64) * 100 + shard, cases, &strat, st, |c, st| check_str(c, st, false)));
        out.absorb_all(rs);
        if out.failure.is_some() {
            return out;
        }
    }
    // (c') wrap candidates and non-ASCII white space
    let strat = arb_wrap_or_space().prop_map(|s| StrCase { s });
    let rs = par_shards(8, |shard, st| pt_shard(ctx, "str", 400 + shard, cases, &strat, st, |c, st| check_str(c, st, false)));
    out.absorb_all(rs);
    if out.failure.is_some() {
        return out;
    }
    // (c) mutations
    let strat = arb_mutant().prop_map(|s| StrCase { s });
    let rs = par_shards(16, |shard, st| pt_shard(ctx, "str", 300 + shard, cases, &strat, st, |c, st| check_str(c, st, false)));
    out.absorb_all(rs);
    let _ = (MRule::d, MDay::index);
    out
}
