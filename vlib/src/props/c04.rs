//! C04 — localtime (rule): POSIX DST rule evaluated correctly at every instant and year.
use crate::cal;
use crate::gens::{self, ClassedRule};
use crate::model::{MDay, MLtt, MRule, MTrailer, MZone, N_NOTATIONS};
use crate::orule::{self, Class};
use crate::ozone::{Fwd, TypeRef, ZoneModel};
use crate::run::*;
use proptest::prelude::*;
use serde::{Deserialize, Serialize};
use serde_json::{json, Value};
use tz::timezone::{TimeZoneRef, TransitionRule};
use tz::TzError;

#[derive(Debug, Clone, Serialize, Deserialize)]
pub struct RuleCase {
    pub rule: MRule,
    /// first of 12 consecutive probed years
    pub y0: i64,
    /// extra explicit instants (shrunk failures end up here)
    pub instants: Vec<i64>,
}

const DELTAS: [i64; 9] = [0, -1, 1, -3600, 3600, -3 * 86400, 3 * 86400, -45 * 86400, 45 * 86400];

fn probe_instants(r: &MRule, y0: i64, n_years: i64, out: &mut Vec<i64>) {
    for y in y0..y0 + n_years {
        let ny = cal::days_from_civil(y, 1, 1) as i128 * 86400;
        let base = [r.s(y) as i128, r.e(y) as i128, ny, ny - r.std.off as i128, ny - r.dst.off as i128];
        for b in base {
            for d in DELTAS {
                let u = b + d as i128;
                if u >= i64::MIN as i128 && u <= i64::MAX as i128 {
                    out.push(u as i64);
                }
            }
        }
    }
}

pub fn check_rule(c: &RuleCase, st: &mut Stats) -> Result<(), String> {
    let r = &c.rule;
    let class = orule::classify(r);
    let alt = match r.to_tz() {
        Ok(a) => a,
        Err(e) => {
            // generator only emits accepted rules; a refusal here is a C11 matter, not C04's
            if class == Class::Unstable {
                st.exclude("rule refused by constructor (unstable)");
                return Ok(());
            }
            return Err(format!("rule {} of class {} refused by the constructor: {e:?}", r.spell(), class.name()));
        }
    };
    st.class(class.name());
    if !class.interleaves() {
        st.exclude("overlapping rule: outside C04's quantifier (periods do not interleave)");
        return Ok(());
    }
    let types = [r.std.to_tz().map_err(|e| format!("{e:?}"))?, r.dst.to_tz().map_err(|e| format!("{e:?}"))?];
    let extra = Some(TransitionRule::Alternate(alt));
    // a quarter of the rules are evaluated in a zone that also carries a leap-second table: the rule is still read on UTC instants
    let leap_recs: Vec<tz::timezone::LeapSecond> = if (r.start_time as i64 + r.end_time as i64 + r.std.off as i64).rem_euclid(4) == 0 {
        st.class("rule_zone_with_leap_table");
        crate::oleap::real_table().iter().map(|&(t, c)| tz::timezone::LeapSecond::new(t, c)).collect()
    } else {
        vec![]
    };
    let zone = TimeZoneRef::new(&[], &types, &leap_recs, &extra).map_err(|e| format!("rule-only zone refused: {e:?}"))?;
    // ... and half of those also carry a one-entry table ending on the rule's own start instant of 1975 (recorded, as zic does, on the
    // counting scale): from there on the rule governs through the "after the last transition" path
    let u0 = r.s(1975);
    let table = [tz::timezone::Transition::new(crate::oleap::f(&crate::oleap::real_table(), u0) as i64, 1)];
    let zone_t = if !leap_recs.is_empty() && (r.start_time as i64 + r.std.off as i64).rem_euclid(8) < 4 && matches!(class, Class::SFirst | Class::EFirst) { TimeZoneRef::new(&table, &types, &leap_recs, &extra).ok() } else { None };
    if zone_t.is_some() {
        st.class("rule_zone_with_leap_table_and_table");
    }
    let mz = MZone { trans: vec![], types: vec![r.std.clone(), r.dst.clone()], leaps: vec![], trailer: MTrailer::Alt(r.clone()) };
    let model = ZoneModel { z: &mz, class: Some(class) };
    let mut instants = c.instants.clone();
    if c.instants.is_empty() {
        probe_instants(r, c.y0, 12, &mut instants);
        for y in [i32::MIN as i64, i32::MIN as i64 + 1, i32::MIN as i64 + 2, i32::MIN as i64 + 3, i32::MAX as i64 - 3, i32::MAX as i64 - 2, i32::MAX as i64 - 1, i32::MAX as i64] {
            probe_instants(r, y, 1, &mut instants);
        }
    }
    // a sample of the rules is also observed through a v3 TZif file whose footer spells the rule: same rule, same answers
    let via_footer: Option<tz::TimeZone> = {
        let mut hsh = std::collections::hash_map::DefaultHasher::new();
        std::hash::Hash::hash(r, &mut hsh);
        let hv = std::hash::Hasher::finish(&hsh);
        if hv % 6 == 0 {
            match crate::props::c08::spell_trailer(&MTrailer::Alt(r.clone()), &[hv as u32, (hv >> 32) as u32, (hv >> 13) as u32]) {
                Some((text, _)) => {
                    let file = crate::tzif::footer_file(3, &text);
                    let z = tz::TimeZone::from_tz_data(&file).map_err(|e| format!("rule {} spelled as v3 footer {:?} refused: {e:?}", r.spell(), String::from_utf8_lossy(&text)))?;
                    if z.as_ref().extra_rule() != &extra {
                        return Err(format!("rule {} spelled as v3 footer {:?} decodes to a different rule {:?}", r.spell(), String::from_utf8_lossy(&text), z.as_ref().extra_rule()));
                    }
                    st.class("also_via_v3_footer");
                    Some(z)
                }
                None => None,
            }
        } else {
            None
        }
    };
    let tie_rule = matches!(class, Class::AllTie | Class::MixedTieS | Class::MixedTieE);
    let odd_time = r.start_time < 0 || r.start_time > 86400 || r.end_time < 0 || r.end_time > 86400;
    for &u in &instants {
        st.eval(1);
        let exp = model.forward(u);
        let got = match &zone_t {
            Some(zt) if u >= u0 => zt.find_local_time_type(u),
            _ => zone.find_local_time_type(u),
        };
        if let Some(z) = &via_footer {
            let g2 = z.find_local_time_type(u);
            match (&got, &g2) {
                (Ok(a), Ok(b)) if a == b => {}
                (Err(a), Err(b)) if format!("{a:?}") == format!("{b:?}") => {}
                (a, b) => return Err(format!("rule {}: at u={u} the zone built from the constructor answers {a:?}, the zone decoded from the v3 footer answers {b:?}", r.spell())),
            }
        }
        match (exp, &got) {
            (Fwd::Type(t), Ok(l)) => {
                let want = model.ltt(t);
                if !want.same_as(l) {
                    let cv = cal::civil_from_unix(u as i128);
                    return Err(format!(
                        "rule {} (class {}): at u={u} ({cv:?} UTC) expected {} ({:?}), got offset {} dst {} '{}'; S(y)={} E(y)={}",
                        r.spell(),
                        class.name(),
                        if t == TypeRef::RuleDst { "DST" } else { "standard" },
                        want,
                        l.ut_offset(),
                        l.is_dst(),
                        l.time_zone_designation(),
                        r.s(cv.y),
                        r.e(cv.y)
                    ));
                }
                // non-trivial: within 1 s of S/E of a nearby year, a straddling period near New Year, odd times, tie rule
                let y = cal::civil_from_unix(u as i128).y;
                let near_edge = (y - 1..=y + 1).any(|yy| (u - r.s(yy)).abs() <= 1 || (u - r.e(yy)).abs() <= 1);
                // the value-building entry points reach the same rule evaluation: the type they report for the instant u + fraction
                // (fractions count toward the future: still second u) is the rule's half in effect at u, and the fields are its clock
                if near_edge || u % 8 == 0 {
                    let zr = match &zone_t {
                        Some(zt) if u >= u0 => *zt,
                        _ => zone,
                    };
                    let ns = [1u32, 500_000_000, 999_999_999][(u.rem_euclid(3)) as usize];
                    let a = tz::DateTime::from_timespec(u, ns, zr);
                    let b = tz::DateTime::from_total_nanoseconds(u as i128 * 1_000_000_000 + ns as i128, zr);
                    let p = tz::UtcDateTime::from_timespec(u, ns).and_then(|x| x.project(zr));
                    for (name, d) in [("DateTime::from_timespec", a), ("DateTime::from_total_nanoseconds", b), ("UtcDateTime::project", p)] {
                        let local = u as i128 + want.off as i128;
                        match d {
                            Ok(d) => {
                                let cv = cal::civil_from_unix(local);
                                if !want.same_as(d.local_time_type()) || d.unix_time() != u || d.nanoseconds() != ns || (d.year() as i64, d.month() as i64, d.month_day() as i64, d.hour() as i64, d.minute() as i64, d.second() as i64) != (cv.y, cv.mo, cv.d, cv.h, cv.mi, cv.s) {
                                    return Err(format!("rule {} (class {}): {name} at u={u} ns={ns} gives {d} with type {:?} (unix {}), the rule prescribes {want:?} there", r.spell(), class.name(), d.local_time_type(), d.unix_time()));
                                }
                            }
                            Err(e) => {
                                if local >= cal::min_unix() as i128 && local <= cal::max_unix() as i128 {
                                    return Err(format!("rule {}: {name} at u={u} ns={ns} failed with {e:?} although the lookup succeeds and the local time is representable", r.spell()));
                                }
                            }
                        }
                    }
                    st.class("value_entry_points_compared");
                }
                let ny = cal::days_from_civil(y, 1, 1) * 86400;
                let ny2 = cal::days_from_civil(y + 1, 1, 1) * 86400;
                let near_ny = ((u - ny).abs() <= 3 * 86400 && orule::is_dst(r, class, ny) ) || ((u - ny2).abs() <= 3 * 86400 && orule::is_dst(r, class, ny2));
                if near_edge || near_ny || odd_time || tie_rule {
                    st.nontrivial(&(r, u));
                }
                if near_edge {
                    st.class("lookup_within_1s_of_start_or_end");
                }
                if near_ny {
                    st.class("lookup_near_new_year_inside_dst");
                }
            }
            (Fwd::OutOfRange, Err(TzError::OutOfRange)) => {
                st.class("year_guard_out_of_range");
            }
            (Fwd::Unspecified, r) => {
                // year outside i32::MIN+2 ..= i32::MAX-2: outside the property's quantifier; only "no panic, and an error is OutOfRange"
                if let Err(e) = r {
                    if !matches!(e, TzError::OutOfRange) {
                        return Err(format!("rule {}: at u={u} (year outside the evaluable range) the error is {e:?}, not OutOfRange", c.rule.spell()));
                    }
                }
                st.class("outside_quantified_years");
            }
            (e, g) => {
                return Err(format!("rule {} (class {}): at u={u} expected {e:?}, got {:?}", r.spell(), class.name(), g.as_ref().map(|l| (l.ut_offset(), l.is_dst())).map_err(|e| format!("{e:?}"))));
            }
        }
    }
    if st.wants_sample(class.name()) {
        st.sample(class.name(), || json!({"rule": r.spell(), "y0": c.y0, "lookups": instants.len()}));
    }
    Ok(())
}

pub fn replay(_kind: &str, case: &Value) -> Result<(), String> {
    check_rule(&serde_json::from_value(case.clone()).map_err(|e| e.to_string())?, &mut Stats::new())
}

fn regressions() -> Vec<RuleCase> {
    let f1 = MRule { std: MLtt::new(0, false, Some("AAA")), dst: MLtt::new(0, true, Some("BBB")), start: MDay::M(3, 5, 2), start_time: 0, end: MDay::M(3, 5, 3), end_time: -86400 };
    let mut v = vec![RuleCase { rule: f1.clone(), y0: 2015, instants: vec![] }, RuleCase { rule: f1, y0: 0, instants: vec![1609459199, 1609459200, 1767225599, 1767225600] }];
    // IANA-style rules
    for (so, doff, s, stt, e, et) in [(3600, 7200, MDay::M(3, 5, 0), 7200, MDay::M(10, 5, 0), 10800), (-18000, -14400, MDay::M(3, 2, 0), 7200, MDay::M(11, 1, 0), 7200), (36000, 39600, MDay::M(10, 1, 0), 7200, MDay::M(4, 1, 0), 10800), (3600, 0, MDay::M(10, 5, 0), 7200, MDay::M(3, 5, 0), 3600), (0, 3600, MDay::J0(0), 0, MDay::J1(365), 90000)] {
        v.push(RuleCase { rule: MRule { std: MLtt::new(so, false, Some("STD")), dst: MLtt::new(doff, true, Some("DST")), start: s, start_time: stt, end: e, end_time: et }, y0: 1995, instants: vec![] });
    }
    v
}

pub fn run(ctx: &Ctx) -> Outcome {
    let mut out = Outcome::new(
        "Rules accepted by the constructor: proptest arb_rule (random day-notation pairs biased to equal/neighbouring notations; IANA-like, hour-multiple, day-multiple+-1 and uniform times; IANA-like and uniform offsets; ties S(y)=E(y) and year-long periods constructed directly), \
         a structured sweep (every one of the 1151 notations as start with random ends and as end with random starts), thorough: every one of the 1151^2 notation pairs. Each rule is probed at S(y), E(y), UTC and local New Year +- {0, 1 s, 1 h, 3 d, 45 d} for 12 consecutive years at a random position of the 400-year cycle plus the 8 years at both i32 extremes. \
         Oracle: periods [S(y),E(y)) / [S(y),E(y+1)) with the order decided on a full 400-year cycle from O-cal. Non-trivial: lookup within 1 s of a start/end instant, or within 3 d of a New Year that lies inside a DST period, or a rule with a negative / > 24 h time or with tie years. Overlapping rules are outside the quantifier: counted and skipped.",
    );
    out.assumptions = vec!["rule classes decided by evaluating all 400 years of a cycle (patterns repeat every 400 years)".into(), "all-tie rules (S(y)=E(y) every year) are never on DST (empty periods)".into()];
    // regressions (incl. the repaired F1 input) first
    let regs = regressions();
    let rs = par_shards(1, |_, st| {
        for c in &regs {
            check_enum("rule", c, st, check_rule)?;
        }
        Ok(())
    });
    out.absorb_all(rs);
    if out.failure.is_some() {
        return out;
    }
    // year-edge corner sweep: a rule day at the very beginning / end of the year combined with the most extreme times and offsets
    // (the start / end instant then lies up to 9 days into the neighbouring year), the other day in mid-year; both orientations
    {
        let rules = orule::corner_rules(&[-604_799, -601_200, -86_400, 0, 86_400, 601_200, 604_799], &[-89_999, -88_200, 0, 91_800, 93_599]);
        let rr = &rules;
        let n = 32u64;
        let rs = par_shards(n, |shard, st| {
            for rule in rr.iter().skip(shard as usize).step_by(n as usize) {
                for y0 in [1995i64, 2003] {
                    let c = RuleCase { rule: rule.clone(), y0, instants: vec![] };
                    check_enum("rule", &c, st, check_rule)?;
                    st.class("year_edge_corner_rules");
                }
            }
            Ok(())
        });
        out.absorb_all(rs);
        if out.failure.is_some() {
            return out;
        }
    }
    // both rule days at the same edge of the year with both events thrown into the neighbouring year; rules that tie in some years only
    {
        let mut rules = orule::both_edge_rules();
        let n_edge = rules.len();
        rules.extend(orule::tie_family_rules());
        let rr = &rules;
        let n = 64u64;
        let rs = par_shards(n, |shard, st| {
            for (i, rule) in rr.iter().enumerate().skip(shard as usize).step_by(n as usize) {
                // the tie family is probed over a full 28-year cycle of year types (2000..2036), the edge family over two windows
                let y0s: &[i64] = if i >= n_edge { &[2000, 2012, 2024] } else { &[1995, 2003] };
                for &y0 in y0s {
                    let c = RuleCase { rule: rule.clone(), y0, instants: vec![] };
                    check_enum("rule", &c, st, check_rule)?;
                    st.class(if i >= n_edge { "tie_family_rules" } else { "both_days_at_one_year_edge_rules" });
                }
            }
            Ok(())
        });
        out.absorb_all(rs);
        if out.failure.is_some() {
            return out;
        }
    }
    // proptest
    let strat = (gens::arb_rule(), 1600i64..2400, prop_oneof![8 => Just(0i64), 1 => -5368708i64..5368708]).prop_map(|(cr, y, k): (ClassedRule, i64, i64)| RuleCase { rule: cr.rule, y0: y + 400 * k, instants: vec![] });
    let cases = ctx.tier.pick(8_000u32, 40_000u32);
    let rs = par_shards(16, |shard, st| pt_shard(ctx, "rule", shard, cases, &strat, st, check_rule));
    out.absorb_all(rs);
    if out.failure.is_some() {
        return out;
    }
    // structured sweep over notations
    let partners = ctx.tier.pick(6usize, 0usize);
    if partners > 0 {
        let rs = par_shards(N_NOTATIONS as u64, |shard, st| {
            let mut dr = Drawer::new(ctx, "sweep", shard);
            let a = MDay::from_index(shard as usize);
            for k in 0..partners * 2 {
                let b = MDay::from_index(dr.draw(&(0..N_NOTATIONS)));
                let (s, e) = if k % 2 == 0 { (a, b) } else { (b, a) };
                sweep_pair(ctx, &mut dr, s, e, st)?;
            }
            Ok(())
        });
        out.absorb_all(rs);
    } else {
        // thorough: every pair
        let rs = par_shards(N_NOTATIONS as u64, |shard, st| {
            let mut dr = Drawer::new(ctx, "sweep", shard);
            let s = MDay::from_index(shard as usize);
            for ei in 0..N_NOTATIONS {
                sweep_pair(ctx, &mut dr, s, MDay::from_index(ei), st)?;
            }
            Ok(())
        });
        out.absorb_all(rs);
        out.extra.insert("exhaustive_note".into(), json!("thorough: the day-notation-pair dimension (1151 x 1151) is enumerated completely, one time/offset draw each; times/offsets/years sampled"));
    }
    out
}

fn sweep_pair(_ctx: &Ctx, dr: &mut Drawer, s: MDay, e: MDay, st: &mut Stats) -> Result<(), Failure> {
    // up to 4 attempts to get an accepted rule for this pair
    for _ in 0..4 {
        let so = dr.draw(&gens::arb_offset_rule());
        let doff = if dr.draw(&(0u8..3)) > 0 { (so as i64 + 3600).min(93_599) as i32 } else { dr.draw(&gens::arb_offset_rule()) };
        let stt = dr.draw(&(-604_799i32..=604_799));
        let et = if dr.draw(&(0u8..2)) == 0 { dr.draw(&(0i32..=96)) * 900 } else { dr.draw(&(-604_799i32..=604_799)) };
        let stt = if dr.draw(&(0u8..2)) == 0 { (stt / 900) * 900 } else { stt };
        let rule = MRule { std: MLtt::new(so, false, Some("STD")), dst: MLtt::new(doff, true, Some("DST")), start: s, start_time: stt, end: e, end_time: et };
        if orule::classify(&rule) == Class::Unstable {
            continue;
        }
        let y0 = dr.draw(&(1600i64..2400));
        let c = RuleCase { rule, y0, instants: vec![] };
        return check_enum("rule", &c, st, check_rule);
    }
    st.exclude("no accepted rule found for this notation pair in 4 draws");
    Ok(())
}
