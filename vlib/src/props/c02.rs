//! C02 — timegm: calendar -> Unix time is the exact monotone inverse; bad dates refused.
use crate::cal;
use crate::gens::{self, Fields};
use crate::run::*;
use proptest::prelude::*;
use serde::{Deserialize, Serialize};
use serde_json::{json, Value};
use tz::error::datetime::DateTimeError;
use tz::{TzError, UtcDateTime};

#[derive(Debug, Clone, Serialize, Deserialize)]
pub struct PairCase {
    pub a: Fields,
    pub b: Fields,
}

fn is_max_leap(f: &Fields) -> bool {
    f.y == i32::MAX && f.mo == 12 && f.d == 31 && f.h == 23 && f.mi == 59 && f.s == 60
}

fn defects(f: &Fields) -> Vec<&'static str> {
    let mut v = vec![];
    let month_ok = (1..=12).contains(&f.mo);
    if !month_ok {
        v.push("month");
    }
    if month_ok {
        if f.d < 1 || (f.d as i64) > cal::days_in_month(f.y as i64, f.mo as i64) {
            v.push("day");
        }
    } else if f.d < 1 || f.d > 31 {
        v.push("day");
    }
    if f.h > 23 {
        v.push("hour");
    }
    if f.mi > 59 {
        v.push("minute");
    }
    if f.s > 60 {
        v.push("second");
    }
    if f.ns >= 1_000_000_000 {
        v.push("ns");
    }
    v
}

fn nontrivial(f: &Fields, valid: bool) -> bool {
    let y = f.y as i64;
    let near_century = (0..=4).contains(&cal::fmod(y + 2, 100));
    let near_1970 = (1966..=1974).contains(&y);
    let month_end = valid && (f.d as i64 == cal::days_in_month(y, f.mo as i64) || f.d == 1);
    let feb = f.mo == 2 && f.d >= 28;
    let rejected_by_one = !valid && defects(f).len() == 1;
    near_century || near_1970 || month_end || feb || f.s == 60 || rejected_by_one || is_max_leap(f)
}

pub fn get(d: &UtcDateTime) -> (i64, i64, i64, i64, i64, i64) {
    (d.year() as i64, d.month() as i64, d.month_day() as i64, d.hour() as i64, d.minute() as i64, d.second() as i64)
}

pub fn check_fields(f: &Fields, st: &mut Stats, exact: bool) -> Result<(), String> {
    st.eval(1);
    let valid = f.valid() && !is_max_leap(f);
    if nontrivial(f, valid) {
        if exact {
            st.nontrivial_exact(1);
        } else {
            st.nontrivial(f);
        }
    }
    let got = UtcDateTime::new(f.y, f.mo, f.d, f.h, f.mi, f.s, f.ns);
    if !valid {
        st.class("invalid");
        let d = defects(f);
        match got {
            Ok(v) => return Err(format!("{f:?} is not a real date/time but was accepted as {v}")),
            Err(e) => {
                if is_max_leap(f) && d.is_empty() {
                    if !matches!(e, TzError::OutOfRange) {
                        return Err(format!("{f:?}: expected Err(OutOfRange) for the excluded maximum, got {e:?}"));
                    }
                } else if !is_max_leap(f) {
                    if !matches!(e, TzError::DateTime(_)) {
                        return Err(format!("{f:?}: expected a DateTime error, got {e:?}"));
                    }
                    if d.len() == 1 {
                        let ok = match (d[0], &e) {
                            ("month", TzError::DateTime(DateTimeError::InvalidMonth)) => true,
                            ("day", TzError::DateTime(DateTimeError::InvalidMonthDay)) => true,
                            ("hour", TzError::DateTime(DateTimeError::InvalidHour)) => true,
                            ("minute", TzError::DateTime(DateTimeError::InvalidMinute)) => true,
                            ("second", TzError::DateTime(DateTimeError::InvalidSecond)) => true,
                            ("ns", TzError::DateTime(DateTimeError::InvalidNanoseconds)) => true,
                            _ => false,
                        };
                        if !ok {
                            return Err(format!("{f:?}: single defect '{}' reported as {e:?}", d[0]));
                        }
                    }
                }
                if st.wants_sample("invalid") {
                    st.sample("invalid", || json!({"fields": f, "defects": d, "got": format!("{e:?}")}));
                }
            }
        }
        return Ok(());
    }
    st.class("valid");
    let v = match got {
        Ok(v) => v,
        Err(e) => return Err(format!("{f:?} is a real date/time but was refused with {e:?}")),
    };
    if get(&v) != (f.y as i64, f.mo as i64, f.d as i64, f.h as i64, f.mi as i64, f.s as i64) || v.nanoseconds() != f.ns {
        return Err(format!("{f:?}: getters return {v}"));
    }
    let exp = f.civil_secs();
    if v.unix_time() as i128 != exp {
        return Err(format!("{f:?}: unix_time() = {} expected {exp}", v.unix_time()));
    }
    // total_nanoseconds, week_day, year_day derive from the same day count
    if v.total_nanoseconds() != exp * 1_000_000_000 + f.ns as i128 {
        return Err(format!("{f:?}: total_nanoseconds() = {}", v.total_nanoseconds()));
    }
    let days = cal::days_from_civil(f.y as i64, f.mo as i64, f.d as i64);
    if v.week_day() as i64 != cal::weekday(days) || v.year_day() as i64 != cal::year_day(f.y as i64, f.mo as i64, f.d as i64) {
        return Err(format!("{f:?}: week_day {} year_day {}", v.week_day(), v.year_day()));
    }
    // calendar -> unix -> calendar
    let back = UtcDateTime::from_timespec(exp as i64, f.ns).map_err(|e| format!("{f:?}: from_timespec({exp}) failed: {e:?}"))?;
    let c = cal::civil_from_unix(exp);
    if get(&back) != (c.y, c.mo, c.d, c.h, c.mi, c.s) {
        return Err(format!("{f:?}: from_timespec({exp}) = {back}, expected {c:?}"));
    }
    if f.s < 60 {
        if back != v {
            return Err(format!("{f:?}: calendar -> unix -> calendar gave {back}"));
        }
        // the same round trip at nanosecond resolution: the value's own nanosecond count leads back to the value
        match UtcDateTime::from_total_nanoseconds(v.total_nanoseconds()) {
            Ok(b2) if b2 == v && v.total_nanoseconds() == exp * 1_000_000_000 + f.ns as i128 => {}
            other => return Err(format!("{f:?}: calendar -> total nanoseconds ({}) -> calendar gave {other:?}", v.total_nanoseconds())),
        }
    } else {
        st.class("second60");
        // second 60 == second 0 of the next minute
        let next = Fields { s: 59, ..*f }.civil_secs() + 1;
        if exp != next || back.second() != 0 {
            return Err(format!("{f:?}: second 60 is not second 0 of the next minute ({exp} vs {next}, back {back})"));
        }
    }
    if st.wants_sample("valid") {
        st.sample("valid", || json!({"fields": f, "unix": exp as i64, "back": back.to_string()}));
    }
    Ok(())
}

pub fn check_pair(p: &PairCase, st: &mut Stats) -> Result<(), String> {
    st.eval(1);
    let (a, b) = (&p.a, &p.b);
    let (ra, rb) = (UtcDateTime::new(a.y, a.mo, a.d, a.h, a.mi, a.s, a.ns), UtcDateTime::new(b.y, b.mo, b.d, b.h, b.mi, b.s, b.ns));
    let (va, vb) = match (ra, rb) {
        (Ok(x), Ok(y)) => (x, y),
        _ => return Err(format!("pair generator produced a refused date: {a:?} {b:?}")),
    };
    let ka = (a.y, a.mo, a.d, a.h, a.mi, a.s);
    let kb = (b.y, b.mo, b.d, b.h, b.mi, b.s);
    let (ua, ub) = (va.unix_time(), vb.unix_time());
    if ka < kb && !(ua < ub) {
        return Err(format!("later calendar date does not give a larger unix time: {va} -> {ua}, {vb} -> {ub}"));
    }
    if ka > kb && !(ua > ub) {
        return Err(format!("earlier calendar date does not give a smaller unix time: {va} -> {ua}, {vb} -> {ub}"));
    }
    if ka == kb && ua != ub {
        return Err(format!("same calendar date, different unix time: {ua} {ub}"));
    }
    // derived Ord agrees with (unix, ns)
    let o1 = va.cmp(&vb);
    let o2 = (ua, a.ns).cmp(&(ub, b.ns));
    if o1 != o2 {
        return Err(format!("Ord on UtcDateTime ({o1:?}) disagrees with (unix, ns) order ({o2:?}) for {va} / {vb}"));
    }
    if (ua - ub).abs() <= 86400 * 366 {
        st.nontrivial(&(*a, *b));
        st.class("close_pair");
    } else {
        st.class("far_pair");
    }
    Ok(())
}

pub fn replay(kind: &str, case: &Value) -> Result<(), String> {
    match kind {
        "pair" => check_pair(&serde_json::from_value(case.clone()).map_err(|e| e.to_string())?, &mut Stats::new()),
        _ => check_fields(&serde_json::from_value(case.clone()).map_err(|e| e.to_string())?, &mut Stats::new(), false),
    }
}

/// successor of a valid date-time (second < 60) by one step of the given unit, computed with O-cal.
fn successor(f: &Fields, unit: u8) -> Option<Fields> {
    let t = f.civil_secs();
    let c = match unit {
        0 => cal::civil_from_unix(t + 1),
        1 => cal::civil_from_unix(t + 86400),
        2 => {
            let (mut y, mut mo) = (f.y as i64, f.mo as i64 + 1);
            if mo > 12 {
                mo = 1;
                y += 1;
            }
            cal::Civil { y, mo, d: 1, h: 0, mi: 0, s: 0 }
        }
        _ => cal::Civil { y: f.y as i64 + 1, mo: 1, d: 1, h: 0, mi: 0, s: 0 },
    };
    Fields::from_civil(&c, f.ns)
}

pub fn run(ctx: &Ctx) -> Outcome {
    let mut out = Outcome::new(
        "Field tuples: (a) all month 0..=255 x day 0..=255 x 10 year classes with a valid time; single-field boundary perturbations; the excluded maximum and its neighbours; \
         (b) every day of the 400-year cycle at fixed + random eras x times {00:00:00, 23:59:59, 23:59:60, random}; (b') EVERY 400-year era of the i32 range x its four century years and a rotating year x {28 Feb 23:59:60, 29 Feb, 1 Mar}; (c) proptest: valid fields, perturbed fields, pairs (date, successor by 1 s / 1 day / next month / next year; random pairs). \
         Non-trivial: year within 2 of a century or within 4 of 1970, first/last day of a month, 28-30 Feb, second 60, rejected because of exactly one field, the excluded maximum; pairs closer than a year. \
         Enumerated cases are distinct by construction; random ones are counted by distinct hash.",
    );
    out.assumptions = vec!["oracle O-cal validated at start-up".into(), "which DateTimeError variant is returned is asserted only for inputs with exactly one defective field (the order of multi-field diagnostics is not part of the property)".into()];
    // (a) validity grid
    let years: Vec<i32> = vec![2024, 2023, 1900, 2000, i32::MIN, i32::MAX, 1969, 1970, -4, 2100];
    let yr = &years;
    let rs = par_shards(years.len() as u64, |shard, st| {
        let y = yr[shard as usize];
        for mo in 0..=255u8 {
            for d in 0..=255u8 {
                let f = Fields { y, mo, d, h: 12, mi: 34, s: 56, ns: 789 };
                check_enum("fields", &f, st, |c, st| check_fields(c, st, true))?;
            }
        }
        // single-field perturbations on a valid date of this year
        for (h, mi, s, ns) in [(23u8, 59u8, 59u8, 999_999_999u32), (24, 0, 0, 0), (255, 0, 0, 0), (0, 60, 0, 0), (0, 255, 0, 0), (0, 0, 60, 0), (0, 0, 61, 0), (0, 0, 255, 0), (0, 0, 0, 1_000_000_000), (0, 0, 0, u32::MAX), (23, 59, 60, 0), (0, 0, 60, 999_999_999)] {
            for (mo, d) in [(1u8, 1u8), (12, 31), (2, 28), (2, 29), (6, 30)] {
                let f = Fields { y, mo, d, h, mi, s, ns };
                check_enum("fields", &f, st, |c, st| check_fields(c, st, true))?;
            }
        }
        Ok(())
    });
    out.absorb_all(rs);
    if out.failure.is_some() {
        return out;
    }
    // (b) all days of cycles at several eras
    let mut eras: Vec<i64> = vec![cal::fdiv(i32::MIN as i64, 400) + 1, -1, 4, 5, cal::fdiv(i32::MAX as i64, 400) - 1];
    {
        let mut dr = Drawer::new(ctx, "b-eras", 0);
        for _ in 0..ctx.tier.pick(3, 300) {
            eras.push(dr.draw(&(cal::fdiv(i32::MIN as i64, 400) + 1..cal::fdiv(i32::MAX as i64, 400) - 1)));
        }
    }
    // the partial cycles at both ends of the i32 year range
    let n_shards = 64u64;
    let er = &eras;
    let rs = par_shards(n_shards, |shard, st| {
        let mut dr = Drawer::new(ctx, "b-secs", shard);
        let lo = (gens::DAYS_400Y as u64 * shard / n_shards) as i64;
        let hi = (gens::DAYS_400Y as u64 * (shard + 1) / n_shards) as i64;
        for &era in er {
            let base = cal::days_from_civil(era * 400, 1, 1);
            for j in lo..hi {
                let (y, mo, d) = cal::civil_from_days(base + j);
                let r = dr.draw(&(0u32..86400));
                for (h, mi, s) in [(0u8, 0u8, 0u8), (23, 59, 59), (23, 59, 60), ((r / 3600) as u8, ((r / 60) % 60) as u8, (r % 60) as u8)] {
                    let f = Fields { y: y as i32, mo: mo as u8, d: d as u8, h, mi, s, ns: r };
                    check_enum("fields", &f, st, |c, st| check_fields(c, st, true))?;
                }
            }
        }
        Ok(())
    });
    out.absorb_all(rs);
    if out.failure.is_some() {
        return out;
    }
    // every 400-year era of the i32 year range x {the three non-leap century years, the leap one, a year rotating with the era index} x
    // {28 Feb 23:59:60, 29 Feb, 1 Mar}: a calendar shortcut valid only in a band of years cannot hide between the sampled eras
    {
        let elo = cal::fdiv(i32::MIN as i64, 400);
        let ehi = cal::fdiv(i32::MAX as i64, 400);
        let n = 256u64;
        let span = (ehi - elo + 1) as u64;
        let rs = par_shards(n, |shard, st| {
            let lo = elo + (span * shard / n) as i64;
            let hi = elo + (span * (shard + 1) / n) as i64;
            for era in lo..hi {
                for r in [100i64, 200, 300, 0, cal::fmod(era * 37, 400)] {
                    let y = era * 400 + r;
                    if y < i32::MIN as i64 || y > i32::MAX as i64 {
                        continue;
                    }
                    for (mo, d, h, mi, s) in [(2u8, 28u8, 23u8, 59u8, 60u8), (2, 29, 12, 0, 0), (3, 1, 0, 0, 0)] {
                        let f = Fields { y: y as i32, mo, d, h, mi, s, ns: 3 };
                        check_enum("fields", &f, st, |c, st| check_fields(c, st, true))?;
                    }
                }
            }
            st.class_n("eras_swept", (hi - lo) as u64);
            Ok(())
        });
        out.absorb_all(rs);
        if out.failure.is_some() {
            return out;
        }
    }
    // both extreme years x every month byte x every day byte x times around the excluded maximum (validation order must not matter)
    let rs = par_shards(2, |shard, st| {
        let y = if shard == 0 { i32::MIN } else { i32::MAX };
        for mo in 0..=255u8 {
            for d in [0u8, 1, 28, 29, 30, 31, 32, 255] {
                for (h, mi, s) in [(23u8, 59u8, 60u8), (0, 0, 60), (23, 59, 61), (24, 59, 60), (23, 60, 60)] {
                    let f = Fields { y, mo, d, h, mi, s, ns: 0 };
                    check_enum("fields", &f, st, |c, st| check_fields(c, st, true))?;
                }
            }
        }
        Ok(())
    });
    out.absorb_all(rs);
    if out.failure.is_some() {
        return out;
    }
    // both extreme years completely (every day), incl. the excluded maximum
    let rs = par_shards(2, |shard, st| {
        let y = if shard == 0 { i32::MIN } else { i32::MAX };
        for mo in 1..=12u8 {
            for d in 1..=cal::days_in_month(y as i64, mo as i64) as u8 {
                for (h, mi, s) in [(0u8, 0u8, 0u8), (23, 59, 59), (23, 59, 60), (23, 58, 60)] {
                    let f = Fields { y, mo, d, h, mi, s, ns: 0 };
                    check_enum("fields", &f, st, |c, st| check_fields(c, st, true))?;
                }
            }
        }
        Ok(())
    });
    out.absorb_all(rs);
    if out.failure.is_some() {
        return out;
    }
    // (c) proptest
    let cases = ctx.tier.pick(30_000u32, 1_500_000u32);
    let s_valid = gens::arb_valid_fields();
    let rs = par_shards(8, |shard, st| pt_shard(ctx, "fields", shard, cases, &s_valid, st, |c, st| check_fields(c, st, false)));
    out.absorb_all(rs);
    if out.failure.is_some() {
        return out;
    }
    let s_pert = gens::arb_fields_perturbed();
    let rs = par_shards(8, |shard, st| pt_shard(ctx, "fields", 100 + shard, cases, &s_pert, st, |c, st| check_fields(c, st, false)));
    out.absorb_all(rs);
    if out.failure.is_some() {
        return out;
    }
    let base = gens::arb_valid_fields().prop_filter("second<60, not the last representable year end", |f| f.s < 60 && f.y < i32::MAX);
    let s_succ = (base.clone(), 0u8..4).prop_filter_map("successor representable", |(a, unit)| successor(&a, unit).map(|b| PairCase { a, b }));
    let rs = par_shards(8, |shard, st| pt_shard(ctx, "pair", 200 + shard, cases, &s_succ, st, check_pair));
    out.absorb_all(rs);
    if out.failure.is_some() {
        return out;
    }
    let s_rand = (base.clone(), base).prop_map(|(a, b)| PairCase { a, b });
    let rs = par_shards(8, |shard, st| pt_shard(ctx, "pair", 300 + shard, cases, &s_rand, st, check_pair));
    out.absorb_all(rs);
    out.extra.insert("exhaustive_note".into(), json!("complete per factor: the 65536 (month, day) byte pairs for 10 year classes; all days of the 400-year cycle at the listed eras; every day of years i32::MIN and i32::MAX. Cross products sampled."));
    out
}
