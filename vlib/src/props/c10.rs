//! C10 — end-to-end: agrees with glibc and CPython zoneinfo on the real IANA database.
use crate::cal;
use crate::model::MRule;
use crate::oleap;
use crate::props::c08::zoneinfo_files;
use crate::props::c09;
use crate::run::*;
use crate::tzstr::{self, TzEval};
use serde_json::{json, Value};
use std::io::Write;
use std::path::{Path, PathBuf};
use std::process::{Command, Stdio};
use tz::datetime::FoundDateTimeKind;
use tz::timezone::{TimeZone, TimeZoneSettings, TransitionRule};
use tz::{DateTime, TzError};

#[derive(Debug, Clone)]
enum Expect {
    /// (offset, is_dst, abbreviation, civil fields of u+off or None)
    Type(i32, bool, String, Option<(i64, i64, i64, i64, i64, i64)>),
    /// mktime: set of instants
    Set(Vec<i64>),
    /// mktime on a right/ file: the reference shows offset `o` at this count iff tz-rs lists the instant among its results
    Member(i32, bool),
}

struct Rec {
    what: String,
    exp: Expect,
    /// which references apply (glibc, zoneinfo)
    refs: (bool, bool),
    /// the reference command lines that reproduce this query ("F path" / "T string", then "Q t" / "M l offs")
    cmds: (String, String),
}

fn python() -> String {
    if Path::new("/usr/bin/python3").exists() {
        "/usr/bin/python3".into()
    } else {
        "python3".into()
    }
}

fn run_ref(cmd: &mut Command, input: &Path, output: &Path) -> Result<Vec<String>, String> {
    let fin = std::fs::File::open(input).map_err(|e| e.to_string())?;
    let fout = std::fs::File::create(output).map_err(|e| e.to_string())?;
    let st = cmd.stdin(Stdio::from(fin)).stdout(Stdio::from(fout)).stderr(Stdio::piped()).status().map_err(|e| format!("cannot run reference: {e}"))?;
    if !st.success() {
        return Err(format!("reference exited with {st}"));
    }
    Ok(std::fs::read_to_string(output).map_err(|e| e.to_string())?.lines().map(|s| s.to_string()).collect())
}

fn abbr_of(t: &tz::LocalTimeType) -> String {
    t.time_zone_designation().to_string()
}

struct Batch {
    g_in: Vec<u8>,
    p_in: Vec<u8>,
    g_recs: Vec<Rec>,
    p_recs: Vec<Rec>,
    cur: String,
}

impl Batch {
    fn new() -> Self {
        Batch { g_in: vec![], p_in: vec![], g_recs: vec![], p_recs: vec![], cur: String::new() }
    }
    fn load(&mut self, path: &Path, glibc: bool, py: bool) {
        self.cur = format!("F {}", path.display());
        if glibc {
            writeln!(self.g_in, "F {}", path.display()).unwrap();
        }
        if py {
            writeln!(self.p_in, "F {}", path.display()).unwrap();
        }
    }
    fn q(&mut self, t_glibc: i64, t_py: i64, mut rec: Rec) {
        if rec.refs.0 {
            writeln!(self.g_in, "Q {t_glibc}").unwrap();
            self.g_recs.push(Rec { what: rec.what.clone(), exp: rec.exp.clone(), refs: rec.refs, cmds: (self.cur.clone(), format!("Q {t_glibc}")) });
        }
        if rec.refs.1 {
            writeln!(self.p_in, "Q {t_py}").unwrap();
            rec.cmds = (self.cur.clone(), format!("Q {t_py}"));
            self.p_recs.push(rec);
        }
    }
    fn m(&mut self, l: i64, offs: &[i32], rec: Rec) {
        let line = format!("M {l} {}", offs.iter().map(|o| o.to_string()).collect::<Vec<_>>().join(" "));
        if rec.refs.0 {
            writeln!(self.g_in, "{line}").unwrap();
            self.g_recs.push(Rec { what: rec.what.clone(), exp: rec.exp.clone(), refs: rec.refs, cmds: (self.cur.clone(), line.clone()) });
        }
        if rec.refs.1 {
            writeln!(self.p_in, "{line}").unwrap();
            let mut rec = rec;
            rec.cmds = (self.cur.clone(), line.clone());
            self.p_recs.push(rec);
        }
    }
}

fn compare(refname: &str, recs: &[Rec], answers: &[String], glibc: bool, st: &mut Stats) -> Result<(), Failure> {
    if recs.len() != answers.len() {
        return Err(Failure::new("infra", format!("{refname}: {} answers for {} queries", answers.len(), recs.len()), json!(null)));
    }
    for (r, a) in recs.iter().zip(answers) {
        st.eval(1);
        match &r.exp {
            Expect::Type(off, dst, abbr, fields) => {
                let p: Vec<&str> = a.split_whitespace().collect();
                let ok = if glibc {
                    p.len() == 9 && p[0].parse::<i32>() == Ok(*off) && (p[1] == "1") == *dst && p[2] == abbr && fields.map(|f| [f.0, f.1, f.2, f.3, f.4, f.5].iter().zip(&p[3..9]).all(|(x, y)| y.parse::<i64>() == Ok(*x))).unwrap_or(true)
                } else {
                    p.len() == 2 && p[0].parse::<i32>() == Ok(*off) && p[1] == abbr
                };
                if !ok {
                    return Err(Failure::new("ref", format!("{}: tz-rs reports offset {off} dst {dst} abbreviation {abbr:?} fields {fields:?}; {refname} reports {a:?}", r.what), json!({"what": r.what, "reference": refname, "reference_answer": a, "load": r.cmds.0, "query": r.cmds.1})));
                }
            }
            Expect::Member(o, member) => {
                let p: Vec<&str> = a.split_whitespace().collect();
                let shows = p.first().and_then(|x| x.parse::<i32>().ok()) == Some(*o);
                if shows != *member {
                    return Err(Failure::new("ref", format!("{}: tz-rs {} this instant for that local time, but {refname} shows offset {:?} there (candidate offset {o})", r.what, if *member { "lists" } else { "does not list" }, p.first()), json!({"what": r.what, "reference": refname, "reference_answer": a, "load": r.cmds.0, "query": r.cmds.1})));
                }
            }
            Expect::Set(s) => {
                let got: Vec<i64> = if a == "-" { vec![] } else { a.split_whitespace().filter_map(|x| x.parse().ok()).collect() };
                if &got != s {
                    return Err(Failure::new("ref", format!("{}: tz-rs finds instants {s:?}; the instants implied by {refname} are {got:?}", r.what), json!({"what": r.what, "reference": refname, "reference_answer": a, "load": r.cmds.0, "query": r.cmds.1})));
                }
            }
        }
    }
    Ok(())
}

/// Re-execute one saved comparison: ask the named reference the saved query again and compare with tz-rs's current answer.
pub fn replay(_kind: &str, case: &Value) -> Result<(), String> {
    let load = case["load"].as_str().unwrap_or("");
    let query = case["query"].as_str().unwrap_or("");
    let refname = case["reference"].as_str().unwrap_or("glibc");
    if load.is_empty() || query.is_empty() {
        // "real file refused" failures carry only the file
        let what = case["what"].as_str().unwrap_or("");
        let path = if Path::new(what).exists() { PathBuf::from(what) } else { crate::run::verif_dir().join("build/zoneinfo").join(what) };
        if path.is_file() {
            return TimeZone::from_tz_data(&std::fs::read(&path).map_err(|e| e.to_string())?).map(|_| ()).map_err(|e| format!("{}: real file refused: {e:?}", path.display()));
        }
        return Err(format!("replay file carries no query: {what}"));
    }
    let glibc = refname.starts_with("glibc");
    let verif_buf = crate::run::verif_dir();
    let verif = verif_buf.as_path();
    let scratch = verif.join("build/c10");
    let _ = std::fs::create_dir_all(&scratch);
    let inp = scratch.join("replay.in");
    std::fs::write(&inp, format!("{load}\n{query}\n")).map_err(|e| e.to_string())?;
    let ans = if glibc {
        run_ref(&mut Command::new(verif.join("build/glibc_ref")), &inp, &scratch.join("replay.out"))?
    } else {
        let mut pc = Command::new(python());
        pc.arg(verif.join("refs/zoneinfo_ref.py"));
        run_ref(&mut pc, &inp, &scratch.join("replay.out"))?
    };
    let ans = ans.first().cloned().unwrap_or_default();
    // tz-rs side
    let zone = if let Some(path) = load.strip_prefix("F ") {
        TimeZone::from_tz_data(&std::fs::read(path).map_err(|e| e.to_string())?).map_err(|e| format!("{path}: refused: {e:?}"))?
    } else {
        let read: fn(&str) -> Result<Vec<u8>, Box<dyn std::error::Error + Send + Sync + 'static>> = |_| Err("no file".into());
        TimeZoneSettings::new(&[], read).parse_posix_tz(load.strip_prefix("T ").unwrap_or("")).map_err(|e| format!("TZ string refused: {e:?}"))?
    };
    let zr = zone.as_ref();
    let right = load.contains("/right/");
    let leaps: Vec<(i64, i32)> = zr.leap_seconds().iter().map(|l| (l.unix_leap_time(), l.correction())).collect();
    let mut st = Stats::new();
    let parts: Vec<&str> = query.split_whitespace().collect();
    let rec = if parts[0] == "Q" {
        let t: i64 = parts[1].parse().map_err(|_| "bad query")?;
        // the saved query is on the reference's scale: for right/ files that is the leap-count scale
        let u = if right { oleap::g(&leaps, t).ok_or("no instant")? } else { t };
        let ty = zr.find_local_time_type(u).map_err(|e| format!("lookup at {u} failed: {e:?}"))?;
        let dt = DateTime::from_timespec(u, 0, zr).map_err(|e| format!("{e:?}"))?;
        let fields = if right { None } else { Some((dt.year() as i64, dt.month() as i64, dt.month_day() as i64, dt.hour() as i64, dt.minute() as i64, dt.second() as i64)) };
        Rec { what: format!("{load} / {query}"), exp: Expect::Type(ty.ut_offset(), ty.is_dst(), abbr_of(ty), fields), refs: (glibc, !glibc), cmds: Default::default() }
    } else {
        let l: i64 = parts[1].parse().map_err(|_| "bad query")?;
        let cv = cal::civil_from_unix(l as i128);
        let found = DateTime::find(cv.y as i32, cv.mo as u8, cv.d as u8, cv.h as u8, cv.mi as u8, cv.s as u8, 0, zr).map_err(|e| format!("find failed: {e:?}"))?;
        let mut set: Vec<i64> = found.into_inner().iter().filter_map(|k| if let FoundDateTimeKind::Normal(d) = k { Some(d.unix_time()) } else { None }).collect();
        set.sort();
        Rec { what: format!("{load} / {query}"), exp: Expect::Set(set), refs: (glibc, !glibc), cmds: Default::default() }
    };
    compare(refname, &[rec], &[ans], glibc, &mut st).map_err(|f| f.summary)
}

fn restricted_sentence(dr: &mut Drawer) -> String {
    // glibc's TZ-string evaluator is only a sound reference for rule days well inside the year and years >= 1971
    use proptest::prelude::*;
    let day = prop_oneof![(10u16..=350).prop_map(|n| format!("J{n}")), (10u16..=350).prop_map(|n| format!("{n}")), (2u8..=11, 1u8..=5, 0u8..=6).prop_map(|(m, w, d)| format!("M{m}.{w}.{d}"))];
    let time = prop_oneof![2 => Just(String::new()), 3 => (0u32..=24, 0u32..60, 0u32..60).prop_map(|(h, m, s)| if h == 24 { "/24".to_string() } else if s != 0 { format!("/{h}:{m:02}:{s:02}") } else if m != 0 { format!("/{h}:{m}") } else { format!("/{h}") })];
    let off = (proptest::sample::select(vec!["", "+", "-"]), 0u32..=14, prop_oneof![3 => Just(0u32), 1 => proptest::sample::select(vec![30u32, 45, 15])]).prop_map(|(s, h, m)| if m == 0 { format!("{s}{h}") } else { format!("{s}{h}:{m}") });
    let name = proptest::sample::select(vec!["AAA", "EST", "<+05>", "<-0330>", "WXYZ", "<A1B2>"]);
    let name2 = proptest::sample::select(vec!["BBB", "EDT", "<+06>", "<-0230>", "ABCDE"]);
    let s = (name, off.clone(), name2, proptest::option::weighted(0.4, off), day.clone(), time.clone(), day, time).prop_map(|(n, o, n2, o2, d1, t1, d2, t2)| format!("{n}{o}{n2}{}", o2.unwrap_or_default()) + &format!(",{d1}{t1},{d2}{t2}"));
    dr.draw(&s)
}

pub fn run(ctx: &Ctx) -> Outcome {
    let mut out = Outcome::new(
        "Every TZif file of the vendored tzdata 2025b snapshot (447 files of the main tree against glibc and CPython zoneinfo; 447 of the right/ tree against glibc, tz-rs asked at UTC instant u and glibc at the count F(u)): every recorded transition -1/0/+1, random instants 1900-2500, instants governed by the footer rule (its start/end instants +-1 in far-future years); local times every 15 min +-1 s in the +-3 h around recorded transitions and around the footer rule's transitions of 2040 and 2101 (search vs mktime / fold). \
         mktime: local times within 3 h of transitions since 1970 (15-minute steps +-1 s): the set of instants implied by each reference's forward function (u = L - o over all offsets of the file, kept when the reference shows offset o at u) must equal the valid results of DateTime::find. \
         TZ strings: random well-formed descriptions with rules (days 10..350 / months 2..11, years 1971-2400: the domain where glibc's evaluator is itself right) given to glibc's TZ-environment parser and to TimeZoneSettings. \
         Non-trivial: instant within 1 s of a transition, or governed by the footer, or in a right/ zone after 1972, or a local time with 0 or >= 2 instants.",
    );
    out.assumptions = vec![
        "references: glibc (localtime_r through refs/glibc_ref.c) and CPython zoneinfo (refs/zoneinfo_ref.py) as installed in this image, reading the same bytes".into(),
        "TZ strings vs glibc: end-first rules with tie years are excluded and counted (glibc flips at 1 January of a tie year; C04 decides those rules)".into(),
        "rule-less files (right/ tree has empty footers): at/after the last transition tz-rs must return exactly NoAvailableLocalTimeType (references extrapolate): excluded from comparison and counted".into(),
        "zoneinfo compared on (offset, abbreviation) only; isdst and broken-down fields against glibc only; right/ tree against glibc only".into(),
    ];
    let verif_buf = crate::run::verif_dir();
    let verif = verif_buf.as_path();
    let gbin = verif.join("build/glibc_ref");
    let pyref = verif.join("refs/zoneinfo_ref.py");
    if !gbin.exists() {
        out.failure = Some(Failure::new("infra", "build/glibc_ref missing: run ./setup.sh", json!(null)));
        return out;
    }
    let files = zoneinfo_files();
    if files.len() < 800 {
        out.failure = Some(Failure::new("infra", "tzdata snapshot not unpacked", json!(null)));
        return out;
    }
    let scratch = verif.join("build/c10");
    let _ = std::fs::create_dir_all(&scratch);
    let n_shards = 16u64;
    let n_rand = ctx.tier.pick(200usize, 20_000usize);
    let mk_every = 1usize; // every transition takes part in both tiers (quick used to take every second one and missed right/Indian/Chagos 1996, seeded change C10-r8m1)
    let right_ds: Vec<i64> = ctx.tier.pick(vec![-2i64, -1, 0, 1, 2, 10, 26, 27, 28, 1800], (-30i64..=30).chain([-3600, -1800, -900, 900, 1800, 3600]).collect());
    let fr = &files;
    let rs = par_shards(n_shards, |shard, st| {
        let mut dr = Drawer::new(ctx, "instants", shard);
        let mut b = Batch::new();
        for (fi, p) in fr.iter().enumerate() {
            if fi as u64 % n_shards != shard {
                continue;
            }
            let right = p.components().any(|c| c.as_os_str() == "right");
            let bytes = std::fs::read(p).map_err(|e| Failure::new("infra", format!("{p:?}: {e}"), json!(null)))?;
            let zone = TimeZone::from_tz_data(&bytes).map_err(|e| Failure::new("ref", format!("{}: real file refused: {e:?}", p.display()), json!({"what": p.display().to_string()})))?;
            let zr = zone.as_ref();
            // what the FILE records is taken from the independent reader, not from the decoded zone's accessors: the region in which a
            // rule-less file may answer "no local time type" is defined by the file's own last transition (seeded change C10-r10m1
            // dropped the no-op expiry transition of the right/ files while decoding and thereby moved that region)
            let fm = crate::tzif::read(&bytes).map_err(|e| Failure::new("infra", format!("{}: independent reader refuses a real file: {e}", p.display()), json!(null)))?;
            let blk = if fm.version == 1 { &fm.v1 } else { fm.v2.as_ref().unwrap_or(&fm.v1) };
            let leaps: Vec<(i64, i32)> = blk.leaps.clone();
            let file_times: Vec<i64> = blk.times.clone();
            let name = p.strip_prefix(verif.join("build/zoneinfo")).unwrap_or(p).display().to_string();
            b.load(p, true, !right);
            st.class(if right { "right_files" } else { "main_files" });
            let last_u = file_times.last().and_then(|&t| oleap::g(&leaps, t));
            let has_rule = !crate::tzstr::trim_ascii_ws(&fm.footer).is_empty();
            let mut instants: Vec<(i64, &'static str)> = vec![];
            for &t in &file_times {
                if let Some(u) = oleap::g(&leaps, t) {
                    for d in [-1i64, 0, 1] {
                        instants.push((u + d, "transition"));
                    }
                }
            }
            let lo = cal::days_from_civil(1900, 1, 1) * 86400;
            let hi = cal::days_from_civil(2500, 1, 1) * 86400;
            for _ in 0..n_rand {
                instants.push((dr.draw(&(lo..hi)), "random"));
            }
            if let Some(TransitionRule::Alternate(a)) = zr.extra_rule() {
                let r = MRule::from_tz(a);
                for y in [2040i64, 2101, 2399] {
                    for base in [r.s(y), r.e(y)] {
                        for d in [-1i64, 0, 1] {
                            instants.push((base + d, "footer_rule"));
                        }
                    }
                }
                // "... and in the far future where the footer rule governs": neither reference can be asked beyond year 9999 (zoneinfo)
                // or about 5.88 million (glibc multiplies the year by 365 in an int), so the far future is tied to the compared years by
                // the calendar's own period: the Gregorian calendar repeats every 146 097 days = 20 871 weeks, hence the footer rule's
                // answer at u + k * 400 years is its answer at u (compared with both references above), for every k that keeps the
                // year inside the supported range (seeded change C10-r13bm2: the week-day arithmetic of Mm.w.d narrowed to i32).
                if last_u.map(|l| r.s(2040).min(r.e(2040)) > l + 86400 * 400).unwrap_or(true) {
                    const P: i64 = 146_097 * 86_400;
                    for y in [2040i64, 2101] {
                        for base in [r.s(y), r.e(y)] {
                            for d in [-86_400i64, -1, 0, 1, 86_400] {
                                let u = base + d;
                                let Ok(near) = zr.find_local_time_type(u) else { continue };
                                for k in [1i64, 25, 14_000, 14_704, 14_705, 15_000, 250_000, 5_000_000] {
                                    let u2 = u + k * P;
                                    st.eval(1);
                                    let far = zr.find_local_time_type(u2).map_err(|e| Failure::new("far", format!("{name}: lookup at u={u2} ({k} x 400 years after {u}) failed: {e:?}"), json!({"what": name})))?;
                                    if (far.ut_offset(), far.is_dst(), far.time_zone_designation()) != (near.ut_offset(), near.is_dst(), near.time_zone_designation()) {
                                        return Err(Failure::new(
                                            "far",
                                            format!("{name}: footer rule at u={u2} ({k} x 400 years after u={u}, same calendar position) gives offset {} '{}', at u={u} (where both references agree) offset {} '{}'", far.ut_offset(), far.time_zone_designation(), near.ut_offset(), near.time_zone_designation()),
                                            json!({"what": name}),
                                        ));
                                    }
                                    let dt = DateTime::from_timespec(u2, 0, zr).map_err(|e| Failure::new("far", format!("{name}: from_timespec({u2}) failed: {e:?}"), json!({"what": name})))?;
                                    let cv = cal::civil_from_unix(u2 as i128 + far.ut_offset() as i128);
                                    if (dt.year() as i64, dt.month() as i64, dt.month_day() as i64, dt.hour() as i64, dt.minute() as i64, dt.second() as i64) != (cv.y, cv.mo, cv.d, cv.h, cv.mi, cv.s) {
                                        return Err(Failure::new("far", format!("{name}: from_timespec({u2}) gives {dt}, expected {cv:?}"), json!({"what": name})));
                                    }
                                    st.class("far_future_by_400_year_period");
                                    if d.abs() <= 1 {
                                        st.nontrivial(&(fi, u2));
                                    }
                                }
                            }
                        }
                    }
                }
            }
            for (u, kind) in instants {
                // zoneinfo handles years 1..9999 only; keep all queries inside 1800..2500
                if u < cal::days_from_civil(1800, 1, 1) * 86400 || u > hi {
                    continue;
                }
                let after_last = last_u.map(|l| u >= l).unwrap_or(true);
                match zr.find_local_time_type(u) {
                    Ok(t) => {
                        let dt = DateTime::from_timespec(u, 0, zr).map_err(|e| Failure::new("ref", format!("{name}: from_timespec({u}) failed: {e:?}"), json!({"what": name})))?;
                        let fields = if right { None } else { Some((dt.year() as i64, dt.month() as i64, dt.month_day() as i64, dt.hour() as i64, dt.minute() as i64, dt.second() as i64)) };
                        let t_g = if right { oleap::f(&leaps, u) as i64 } else { u };
                        // an inserted leap second itself (count without UTC pre-image) is never asked: F(u) always has one
                        if kind == "transition" || (after_last && has_rule) || (right && u > 78796800) {
                            st.nontrivial(&(fi, u));
                        }
                        st.class(kind);
                        if after_last && has_rule {
                            st.class("governed_by_footer");
                        }
                        b.q(t_g, u, Rec { what: format!("{name} at u={u} ({kind})"), exp: Expect::Type(t.ut_offset(), t.is_dst(), abbr_of(t), fields), refs: (true, !right), cmds: Default::default() });
                    }
                    Err(TzError::NoAvailableLocalTimeType) if after_last && !has_rule => {
                        st.exclude("rule-less file at/after its last transition: NoAvailableLocalTimeType (references extrapolate)");
                    }
                    Err(e) => return Err(Failure::new("ref", format!("{name}: lookup at {u} failed with {e:?}"), json!({"what": name}))),
                }
            }
            // mktime on right/ files: candidates u = L - o are asked at their count F(u); glibc shows offset o there iff u is a result
            if right {
                let mut offs: Vec<i32> = zr.local_time_types().iter().map(|t| t.ut_offset()).collect();
                offs.sort();
                offs.dedup();
                let trs = zr.transitions();
                for (k, t) in trs.iter().enumerate() {
                    let Some(ut) = oleap::g(&leaps, t.unix_leap_time()) else { continue };
                    if ut < 78796800 - 86400 || ut > hi {
                        continue;
                    }
                    let off_before = if k == 0 { zr.local_time_types()[0].ut_offset() } else { zr.local_time_types()[trs[k - 1].local_time_type_index()].ut_offset() };
                    let off_after = zr.local_time_types()[t.local_time_type_index()].ut_offset();
                    for base in [off_before, off_after] {
                        for &d in &right_ds {
                            let l = ut + base as i64 + d;
                            if offs.iter().any(|o| last_u.map(|lu| l - *o as i64 >= lu).unwrap_or(true)) {
                                continue;
                            }
                            let cv = cal::civil_from_unix(l as i128);
                            let found = DateTime::find(cv.y as i32, cv.mo as u8, cv.d as u8, cv.h as u8, cv.mi as u8, cv.s as u8, 0, zr).map_err(|e| Failure::new("ref", format!("{name}: find({cv:?}) failed {e:?}"), json!({"what": name})))?;
                            let list = found.into_inner();
                            let set: Vec<i64> = list.iter().filter_map(|k| if let FoundDateTimeKind::Normal(d) = k { Some(d.unix_time()) } else { None }).collect();
                            // every listed instant must come from one of the file's offsets, and there must be no spurious gap entry when an instant exists
                            if !set.is_empty() && list.len() != set.len() {
                                return Err(Failure::new("ref", format!("{name} local time {cv:?}: search lists valid instants {set:?} and a gap entry at the same time"), json!({"what": name})));
                            }
                            for o in &offs {
                                let u = l - *o as i64;
                                st.class("mktime_right_membership");
                                b.q(oleap::f(&leaps, u) as i64, u, Rec { what: format!("{name} local time {:04}-{:02}-{:02}T{:02}:{:02}:{:02}, candidate instant {u}", cv.y, cv.mo, cv.d, cv.h, cv.mi, cv.s), exp: Expect::Member(*o, set.contains(&u)), refs: (true, false), cmds: Default::default() });
                            }
                        }
                    }
                }
            }
            // mktime
            if !right {
                let mut offs: Vec<i32> = zr.local_time_types().iter().map(|t| t.ut_offset()).collect();
                match zr.extra_rule() {
                    Some(TransitionRule::Fixed(t)) => offs.push(t.ut_offset()),
                    Some(TransitionRule::Alternate(a)) => {
                        offs.push(a.std().ut_offset());
                        offs.push(a.dst().ut_offset());
                    }
                    None => {}
                }
                offs.sort();
                offs.dedup();
                let trs = zr.transitions();
                // one caller-provided buffer reused for every local time of this file (mktime callers do that)
                let mut reused = [None; 4];
                let mut events: Vec<(i64, i32)> = vec![];
                for (k, t) in trs.iter().enumerate() {
                    let tt = t.unix_leap_time();
                    // the first transition (from the implicit type 0, usually local mean time) and the last one always take part
                    let pinned = (k == 0 && tt > cal::days_from_civil(1800, 1, 2) * 86400) || k + 1 == trs.len();
                    if tt > hi || (!pinned && (tt < 0 || (k + fi) % mk_every != 0)) {
                        continue;
                    }
                    let off_before = if k == 0 { zr.local_time_types()[0].ut_offset() } else { zr.local_time_types()[trs[k - 1].local_time_type_index()].ut_offset() };
                    events.push((tt, off_before));
                }
                // the transitions the footer rule generates after the table (gap and fold hours of two far years)
                if let Some(TransitionRule::Alternate(a)) = zr.extra_rule() {
                    let r = MRule::from_tz(a);
                    for y in [2040i64, 2101] {
                        events.push((r.s(y), r.std.off));
                        events.push((r.e(y), r.dst.off));
                        st.class_n("mktime_footer_rule_events", 2);
                    }
                }
                for (tt, off_before) in events {
                    for step in -12i64..=12 {
                        for d in [-1i64, 0, 1] {
                            let l = tt + off_before as i64 + step * 900 + d;
                            // rule-less file: candidates at/after the last transition are extrapolated by the references
                            if !has_rule && offs.iter().any(|o| last_u.map(|lu| l - *o as i64 >= lu).unwrap_or(true)) {
                                st.exclude("mktime candidate at/after the last transition of a rule-less file");
                                continue;
                            }
                            let cv = cal::civil_from_unix(l as i128);
                            let found = DateTime::find(cv.y as i32, cv.mo as u8, cv.d as u8, cv.h as u8, cv.mi as u8, cv.s as u8, 0, zr).map_err(|e| Failure::new("ref", format!("{name}: find({cv:?}) failed {e:?}"), json!({"what": name})))?;
                            let (e0, l0, u0) = (found.earliest().map(|d| d.unix_time()), found.latest().map(|d| d.unix_time()), found.unique().map(|d| d.unix_time()));
                            {
                                let r = DateTime::find_n(&mut reused, cv.y as i32, cv.mo as u8, cv.d as u8, cv.h as u8, cv.mi as u8, cv.s as u8, 0, zr).map_err(|e| Failure::new("ref", format!("{name}: find_n({cv:?}) failed {e:?}"), json!({"what": name})))?;
                                if r.is_exhaustive() && (r.earliest().map(|d| d.unix_time()), r.latest().map(|d| d.unix_time()), r.unique().map(|d| d.unix_time())) != (e0, l0, u0) {
                                    return Err(Failure::new("ref", format!("{name} local time {cv:?}: with a reused buffer the earliest/latest/unique instants are {:?}/{:?}/{:?}, the allocating search gives {e0:?}/{l0:?}/{u0:?}", r.earliest().map(|d| d.unix_time()), r.latest().map(|d| d.unix_time()), r.unique().map(|d| d.unix_time())), json!({"what": name})));
                                }
                            }
                            let list = found.into_inner();
                            let mut set: Vec<i64> = list.iter().filter_map(|k| if let FoundDateTimeKind::Normal(d) = k { Some(d.unix_time()) } else { None }).collect();
                            set.sort();
                            if set.is_empty() {
                                // a local time no instant shows: the search must say so with one gap entry, placed on an instant at which
                                // the references really switch from the entry's first type to its second, the local time lying in between
                                match list.as_slice() {
                                    [FoundDateTimeKind::Skipped { before_transition: bt, after_transition: at }] if bt.unix_time() == at.unix_time() => {
                                        let u = bt.unix_time();
                                        let (ob, oa) = (bt.local_time_type().ut_offset() as i64, at.local_time_type().ut_offset() as i64);
                                        if !(u + ob <= l && l < u + oa) {
                                            return Err(Failure::new("ref", format!("{name} local time {cv:?}: gap entry at {u} with offsets {ob} -> {oa} does not contain the searched local time"), json!({"what": name})));
                                        }
                                        st.class("mktime_gap_entry_checked_against_references");
                                        b.q(u - 1, u - 1, Rec { what: format!("{name} at u={} (last second before the gap reported for {cv:?})", u - 1), exp: Expect::Type(bt.local_time_type().ut_offset(), bt.local_time_type().is_dst(), abbr_of(bt.local_time_type()), None), refs: (true, true), cmds: Default::default() });
                                        b.q(u, u, Rec { what: format!("{name} at u={u} (first second after the gap reported for {cv:?})"), exp: Expect::Type(at.local_time_type().ut_offset(), at.local_time_type().is_dst(), abbr_of(at.local_time_type()), None), refs: (true, true), cmds: Default::default() });
                                    }
                                    other => return Err(Failure::new("ref", format!("{name} local time {cv:?}: no instant shows it (the references agree below), but the search reports {} entries instead of exactly one gap entry", other.len()), json!({"what": name}))),
                                }
                            }
                            if set.len() != 1 {
                                st.nontrivial(&(fi, l));
                                st.class(if set.is_empty() { "mktime_skipped" } else { "mktime_ambiguous" });
                            } else {
                                st.class("mktime_unique");
                            }
                            b.m(l, &offs, Rec { what: format!("{name} local time {:04}-{:02}-{:02}T{:02}:{:02}:{:02}", cv.y, cv.mo, cv.d, cv.h, cv.mi, cv.s), exp: Expect::Set(set), refs: (true, true), cmds: Default::default() });
                        }
                    }
                }
            }
        }
        // run the references on this shard's batch
        let gi = scratch.join(format!("{shard}-glibc.in"));
        let pi = scratch.join(format!("{shard}-py.in"));
        std::fs::write(&gi, &b.g_in).map_err(|e| Failure::new("infra", e.to_string(), json!(null)))?;
        std::fs::write(&pi, &b.p_in).map_err(|e| Failure::new("infra", e.to_string(), json!(null)))?;
        let ga = run_ref(&mut Command::new(&gbin), &gi, &scratch.join(format!("{shard}-glibc.out"))).map_err(|e| Failure::new("infra", format!("glibc reference: {e}"), json!(null)))?;
        let mut pc = Command::new(python());
        pc.arg(&pyref);
        let pa = run_ref(&mut pc, &pi, &scratch.join(format!("{shard}-py.out"))).map_err(|e| Failure::new("infra", format!("zoneinfo reference: {e}"), json!(null)))?;
        compare("glibc", &b.g_recs, &ga, true, st)?;
        compare("zoneinfo", &b.p_recs, &pa, false, st)?;
        if st.wants_sample("comparison") {
            if let (Some(r), Some(a)) = (b.g_recs.first(), ga.first()) {
                st.sample("comparison", || json!({"query": r.what, "glibc": a}));
            }
            if let (Some(r), Some(a)) = (b.p_recs.last(), pa.last()) {
                st.sample("comparison", || json!({"query": r.what, "zoneinfo": a}));
            }
        }
        Ok(())
    });
    out.absorb_all(rs);
    if out.failure.is_some() {
        return out;
    }
    // TZ strings vs glibc's TZ-environment parser
    let n_str = ctx.tier.pick(400usize, 8000usize);
    let rs = par_shards(8, |shard, st| {
        let mut dr = Drawer::new(ctx, "strings", shard);
        let mut b = Batch::new();
        let settings_read: fn(&str) -> Result<Vec<u8>, Box<dyn std::error::Error + Send + Sync + 'static>> = |_| Err("no file".into());
        let settings = TimeZoneSettings::new(&[], settings_read);
        for _ in 0..n_str {
            let s = restricted_sentence(&mut dr);
            let zone = match settings.parse_posix_tz(&s) {
                Ok(z) => z,
                Err(_) => {
                    // must be an order-unstable rule (C09/C11 decide that); not compared
                    match tzstr::parse(s.as_bytes(), false) {
                        Ok(TzEval::Alt(r)) if crate::orule::classify(&r) == crate::orule::Class::Unstable => {
                            st.exclude("TZ string refused as inconsistent rule");
                            continue;
                        }
                        _ => return Err(Failure::new("ref", format!("generated TZ string {s:?} refused by tz-rs"), json!({"what": s}))),
                    }
                }
            };
            let zr = zone.as_ref();
            let r = match zr.extra_rule() {
                Some(TransitionRule::Alternate(a)) => MRule::from_tz(a),
                _ => continue,
            };
            if !crate::orule::classify(&r).interleaves() {
                st.exclude("overlapping rule");
                continue;
            }
            // glibc decides per calendar year from that year's start / end order: for an end-first rule whose start and end coincide
            // in SOME years (e.g. "WXYZ11ABCDE9,J83/24,83": equal in common years, a day apart in leap years) it flips at 1 January of
            // every tie year — the behaviour tz-rs itself had before the F1 repair and that C04 rules out. Outside glibc's validity
            // as a reference, like its other limits (found by the thorough tier with seed 4: a false alarm of this check, not a defect).
            if crate::orule::classify(&r) == crate::orule::Class::MixedTieE {
                st.exclude("end-first rule with tie years: glibc's per-year evaluation flips at New Year (reference not valid)");
                continue;
            }
            writeln!(b.g_in, "T {s}").unwrap();
            b.cur = format!("T {s}");
            st.class("tz_strings");
            let mut us = vec![];
            for _ in 0..6 {
                us.push(dr.draw(&(cal::days_from_civil(1971, 1, 1) * 86400..cal::days_from_civil(2400, 1, 1) * 86400)));
            }
            let y = dr.draw(&(1972i64..2399));
            for base in [r.s(y), r.e(y)] {
                for d in [-1i64, 0, 1] {
                    us.push(base + d);
                }
            }
            for u in us {
                let t = zr.find_local_time_type(u).map_err(|e| Failure::new("ref", format!("{s:?} lookup {u}: {e:?}"), json!({"what": s})))?;
                let dt = DateTime::from_timespec(u, 0, zr).map_err(|e| Failure::new("ref", format!("{e:?}"), json!({"what": s})))?;
                st.nontrivial(&(&s, u));
                b.q(u, u, Rec { what: format!("TZ={s:?} at u={u}"), exp: Expect::Type(t.ut_offset(), t.is_dst(), abbr_of(t), Some((dt.year() as i64, dt.month() as i64, dt.month_day() as i64, dt.hour() as i64, dt.minute() as i64, dt.second() as i64))), refs: (true, false), cmds: Default::default() });
            }
        }
        let gi = scratch.join(format!("s{shard}-glibc.in"));
        std::fs::write(&gi, &b.g_in).map_err(|e| Failure::new("infra", e.to_string(), json!(null)))?;
        let ga = run_ref(&mut Command::new(&gbin), &gi, &scratch.join(format!("s{shard}-glibc.out"))).map_err(|e| Failure::new("infra", format!("glibc reference: {e}"), json!(null)))?;
        compare("glibc (TZ string)", &b.g_recs, &ga, true, st)
    });
    out.absorb_all(rs);
    let _ = (c09::arb_sentence, PathBuf::new);
    out
}
