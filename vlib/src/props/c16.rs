//! C16 — total nanoseconds <-> (seconds, nanoseconds) conversion is exact and floor-based.
use crate::cal;
use crate::gens;
use crate::run::*;
use proptest::prelude::*;
use serde::{Deserialize, Serialize};
use serde_json::{json, Value};
use tz::error::datetime::DateTimeError;
use tz::{DateTime, LocalTimeType, TimeZoneRef, TzError, UtcDateTime};

const E9: i128 = 1_000_000_000;

#[derive(Debug, Clone, Serialize, Deserialize)]
pub struct NanoCase {
    /// i128 as decimal string (JSON numbers cannot carry it)
    pub n: String,
    pub off: i32,
}

/// floor split with truncating operators + fix-up (independent of div_euclid/rem_euclid)
fn split(n: i128) -> (i128, u32) {
    let mut q = n / E9;
    let mut r = n % E9;
    if r < 0 {
        q -= 1;
        r += E9;
    }
    (q, r as u32)
}

pub fn check_nano(c: &NanoCase, st: &mut Stats, exact: bool) -> Result<(), String> {
    st.eval(1);
    let n: i128 = c.n.parse().map_err(|e| format!("bad n: {e}"))?;
    let (q, r) = split(n);
    let in_i64 = q >= i64::MIN as i128 && q <= i64::MAX as i128;
    let utc_ok = q >= cal::min_unix() as i128 && q <= cal::max_unix() as i128;
    let near_boundary = [(cal::min_unix() as i128) * E9, (cal::max_unix() as i128 + 1) * E9, (i64::MIN as i128) * E9, (i64::MAX as i128 + 1) * E9, 0].iter().any(|b| n.checked_sub(*b).and_then(|d| d.checked_abs()).map(|d| d <= 2).unwrap_or(false));
    if (n < 0 && r != 0) || near_boundary {
        if exact {
            st.nontrivial_exact(1);
        } else {
            st.nontrivial(&c.n);
        }
    }
    // UTC constructor
    match UtcDateTime::from_total_nanoseconds(n) {
        Ok(d) => {
            if !utc_ok {
                return Err(format!("n={n}: seconds {q} outside the supported range but accepted as {d}"));
            }
            let e = UtcDateTime::from_timespec(q as i64, r).map_err(|e| format!("n={n}: from_timespec({q},{r}) failed {e:?}"))?;
            if d != e {
                return Err(format!("n={n}: from_total_nanoseconds = {d}, from_timespec({q},{r}) = {e}"));
            }
            if d.nanoseconds() != r || d.nanoseconds() >= 1_000_000_000 {
                return Err(format!("n={n}: nanoseconds {} expected {r}", d.nanoseconds()));
            }
            if d.unix_time() as i128 != q {
                return Err(format!("n={n}: unix_time {} expected floor {q}", d.unix_time()));
            }
            if d.total_nanoseconds() != n {
                return Err(format!("n={n}: total_nanoseconds() gives back {}", d.total_nanoseconds()));
            }
            st.class("utc_ok");
            if n < 0 && r != 0 {
                st.class("negative_non_multiple");
            }
            if st.wants_sample("utc_ok") {
                st.sample("utc_ok", || json!({"n": c.n, "seconds": q as i64, "nanos": r, "got": d.to_string()}));
            }
        }
        Err(TzError::OutOfRange) => {
            if utc_ok {
                return Err(format!("n={n}: seconds {q} inside the supported range but refused"));
            }
            st.class("utc_refused");
        }
        Err(e) => return Err(format!("n={n}: unexpected error {e:?}")),
    }
    // zoned constructors: equal to the (seconds, nanoseconds) constructors in every field
    let ltt = LocalTimeType::with_ut_offset(c.off).map_err(|e| format!("offset {}: {e:?}", c.off))?;
    let a = DateTime::from_total_nanoseconds_and_local(n, ltt);
    let b = if in_i64 { DateTime::from_timespec_and_local(q as i64, r, ltt) } else { Err(TzError::OutOfRange) };
    cmp_dt(n, "from_total_nanoseconds_and_local", &a, &b)?;
    let local_ok = in_i64 && {
        let l = q + c.off as i128;
        l >= cal::min_unix() as i128 && l <= cal::max_unix() as i128
    };
    if a.is_ok() != local_ok {
        return Err(format!("n={n} off={}: from_total_nanoseconds_and_local is {:?}, expected ok={local_ok}", c.off, a.as_ref().map(|d| d.to_string())));
    }
    if let Ok(d) = &a {
        if d.total_nanoseconds() != n {
            return Err(format!("n={n}: DateTime::total_nanoseconds() = {}", d.total_nanoseconds()));
        }
    }
    let types = [ltt];
    let zone = TimeZoneRef::new(&[], &types, &[], &None).map_err(|e| format!("zone: {e:?}"))?;
    let a2 = DateTime::from_total_nanoseconds(n, zone);
    let b2 = if in_i64 { DateTime::from_timespec(q as i64, r, zone) } else { Err(TzError::OutOfRange) };
    cmp_dt(n, "from_total_nanoseconds(zone)", &a2, &b2)?;
    cmp_dt(n, "zone vs local", &a2, &a)?;
    // a zone that changes its local time type at the start of the second containing n and again at the start of the next one: the
    // lookup must be made with the floored second (for a negative count that is not a multiple of 1e9, truncation lands in the next type)
    if in_i64 && q < i64::MAX as i128 {
        let q64 = q as i64;
        let mk = |o: i32| LocalTimeType::with_ut_offset(if o == i32::MIN { 7 } else { o });
        if let (Ok(y), Ok(z)) = (mk(c.off.wrapping_add(1)), mk(c.off.wrapping_sub(1))) {
            let types3 = [ltt, y, z];
            let trans3 = [tz::timezone::Transition::new(q64, 1), tz::timezone::Transition::new(q64 + 1, 2)];
            let zone3 = TimeZoneRef::new(&trans3, &types3, &[], &None).map_err(|e| format!("zone3: {e:?}"))?;
            let a3 = DateTime::from_total_nanoseconds(n, zone3);
            let b3 = DateTime::from_timespec(q64, r, zone3);
            cmp_dt(n, "from_total_nanoseconds(zone with transitions at floor and floor+1)", &a3, &b3)?;
            if let Ok(d) = &a3 {
                if d.local_time_type().ut_offset() != y.ut_offset() {
                    return Err(format!("n={n}: in a zone switching types at seconds {q64} and {}, the count lies in second {q64} but got the type with offset {} (expected {})", q64 + 1, d.local_time_type().ut_offset(), y.ut_offset()));
                }
                st.class("zone_with_transitions_ok");
            }
        }
        // The statement's "date-times built from total nanoseconds equal those built from the corresponding (seconds, nanoseconds)
        // pair" holds for every zone shape, not only where the lookup is trivial (seeded changes C16-r13m1/m2: a shortcut for zones
        // listing one type, and a fallback to the last transition's type where the zone defines none): zones whose only listed type
        // is never the answer (a fixed or a DST rule of other types), and zones without a rule queried before / at / after their last
        // transition, where both constructors must refuse alike.
        let other = mk(c.off.wrapping_add(3600));
        if let Ok(y) = other {
            let one = [ltt];
            let fixed = Some(tz::timezone::TransitionRule::Fixed(y));
            if let Ok(z) = TimeZoneRef::new(&[], &one, &[], &fixed) {
                let a4 = DateTime::from_total_nanoseconds(n, z);
                let b4 = DateTime::from_timespec(q64, r, z);
                cmp_dt(n, "from_total_nanoseconds(one listed type + fixed rule of another type)", &a4, &b4)?;
                st.class("one_type_fixed_rule");
            }
            for (k, idx_types) in [(0i64, 1usize), (1, 1), (5, 2), (-1, 1), (0, 0), (3, 0)] {
                // k >= 0: the last transition is k seconds before the count's second (no type is defined there); k < 0: after it
                let Some(t) = q64.checked_sub(k) else { continue };
                let two = [ltt, y];
                let (types_k, ix): (&[LocalTimeType], u8) = if idx_types == 0 { (&one, 0) } else { (&two, (idx_types - 1) as u8) };
                let tr = [tz::timezone::Transition::new(t, ix as usize)];
                if let Ok(z) = TimeZoneRef::new(&tr, types_k, &[], &None) {
                    let a5 = DateTime::from_total_nanoseconds(n, z);
                    let b5 = DateTime::from_timespec(q64, r, z);
                    cmp_dt(n, "from_total_nanoseconds(table zone without a rule)", &a5, &b5)?;
                    st.class(if k >= 0 { "ruleless_after_last_transition" } else { "ruleless_before_transition" });
                }
            }
        }
        {
            use tz::timezone::{AlternateTime, MonthWeekDay, RuleDay, TransitionRule};
            let std = LocalTimeType::new(3600, false, Some(b"STD")).map_err(|e| format!("{e:?}"))?;
            let dst = LocalTimeType::new(7200, true, Some(b"DST")).map_err(|e| format!("{e:?}"))?;
            let alt = AlternateTime::new(std, dst, RuleDay::MonthWeekDay(MonthWeekDay::new(3, 5, 0).unwrap()), 7200, RuleDay::MonthWeekDay(MonthWeekDay::new(10, 5, 0).unwrap()), 10800)
                .map_err(|e| format!("{e:?}"))?;
            let rule = Some(TransitionRule::Alternate(alt));
            for listed in [&[std][..], &[dst][..], &[ltt][..]] {
                if let Ok(z) = TimeZoneRef::new(&[], listed, &[], &rule) {
                    let a6 = DateTime::from_total_nanoseconds(n, z);
                    let b6 = DateTime::from_timespec(q64, r, z);
                    cmp_dt(n, "from_total_nanoseconds(one listed type + DST rule)", &a6, &b6)?;
                    if let Ok(d) = &a6 {
                        st.class(if d.local_time_type().is_dst() { "one_type_dst_rule_in_dst" } else { "one_type_dst_rule_in_std" });
                    }
                }
            }
        }
    }
    Ok(())
}

fn cmp_dt(n: i128, what: &str, a: &Result<DateTime, TzError>, b: &Result<DateTime, TzError>) -> Result<(), String> {
    match (a, b) {
        (Ok(x), Ok(y)) => {
            let fx = (x.year(), x.month(), x.month_day(), x.hour(), x.minute(), x.second(), x.nanoseconds(), x.unix_time(), x.local_time_type().ut_offset(), x.local_time_type().is_dst(), x.local_time_type().time_zone_designation().to_string());
            let fy = (y.year(), y.month(), y.month_day(), y.hour(), y.minute(), y.second(), y.nanoseconds(), y.unix_time(), y.local_time_type().ut_offset(), y.local_time_type().is_dst(), y.local_time_type().time_zone_designation().to_string());
            if fx != fy {
                return Err(format!("n={n}: {what}: {fx:?} vs {fy:?}"));
            }
            Ok(())
        }
        (Err(TzError::OutOfRange), Err(TzError::OutOfRange)) => Ok(()),
        // a zone that defines no local time type at the instant: both constructors refuse (which diagnostic is not pinned)
        (Err(TzError::NoAvailableLocalTimeType), Err(TzError::NoAvailableLocalTimeType)) => Ok(()),
        _ => Err(format!("n={n}: {what}: {:?} vs {:?}", a.as_ref().map(|d| d.to_string()), b.as_ref().map(|d| d.to_string()))),
    }
}

#[derive(Debug, Clone, Serialize, Deserialize)]
pub struct NsArgCase {
    pub f: gens::Fields,
    pub off: i32,
}

/// nanosecond arguments >= 1e9 are refused wherever fields are validated (new / find / find_n)
pub fn check_nsarg(c: &NsArgCase, st: &mut Stats) -> Result<(), String> {
    st.eval(1);
    let f = &c.f;
    let bad = f.ns >= 1_000_000_000;
    if bad {
        st.nontrivial(&(*f, c.off));
    }
    let ltt = LocalTimeType::with_ut_offset(c.off).map_err(|e| format!("{e:?}"))?;
    let types = [ltt];
    // zone shape by offset parity: fixed (no table, no rule) / table only / fixed trailer / DST rule: fields are validated on every path
    let trans = [tz::timezone::Transition::new(0, 0), tz::timezone::Transition::new(1_000_000_000, 0)];
    let fixed_rule = Some(tz::timezone::TransitionRule::Fixed(ltt));
    let alt_rule = tz::timezone::AlternateTime::new(
        tz::LocalTimeType::new(0, false, Some(b"STD")).unwrap(),
        tz::LocalTimeType::new(3600, true, Some(b"DST")).unwrap(),
        tz::timezone::RuleDay::MonthWeekDay(tz::timezone::MonthWeekDay::new(3, 5, 0).unwrap()),
        7200,
        tz::timezone::RuleDay::MonthWeekDay(tz::timezone::MonthWeekDay::new(10, 5, 0).unwrap()),
        10800,
    )
    .ok()
    .map(tz::timezone::TransitionRule::Alternate);
    let alt_types = [tz::LocalTimeType::new(0, false, Some(b"STD")).unwrap(), tz::LocalTimeType::new(3600, true, Some(b"DST")).unwrap()];
    let none = None;
    let zone = match c.off.rem_euclid(4) {
        0 => TimeZoneRef::new(&[], &types, &[], &none),
        1 => TimeZoneRef::new(&trans, &types, &[], &none),
        2 => TimeZoneRef::new(&trans, &types, &[], &fixed_rule),
        _ => TimeZoneRef::new(&[], &alt_types, &[], &alt_rule),
    }
    .map_err(|e| format!("{e:?}"))?;
    let is_ns_err = |e: &TzError| matches!(e, TzError::DateTime(DateTimeError::InvalidNanoseconds));
    let r1 = UtcDateTime::new(f.y, f.mo, f.d, f.h, f.mi, f.s, f.ns);
    let r2 = DateTime::new(f.y, f.mo, f.d, f.h, f.mi, f.s, f.ns, ltt);
    let r3 = DateTime::find(f.y, f.mo, f.d, f.h, f.mi, f.s, f.ns, zone);
    let mut buf = [None; 2];
    let r4 = DateTime::find_n(&mut buf, f.y, f.mo, f.d, f.h, f.mi, f.s, f.ns, zone).map(|l| l.count());
    if bad {
        // fields are otherwise valid by construction, so the nanoseconds error is the only possible field diagnostic;
        // the excluded maximum (UtcDateTime::new) and range refusals come first legitimately.
        let max_leap = f.y == i32::MAX && f.mo == 12 && f.d == 31 && f.h == 23 && f.mi == 59 && f.s == 60;
        match &r1 {
            Err(e) if is_ns_err(e) || (max_leap && matches!(e, TzError::OutOfRange)) => {}
            other => return Err(format!("UtcDateTime::new with ns={} -> {other:?}", f.ns)),
        }
        for (name, r) in [("DateTime::new", r2.map(|_| 0usize)), ("find", r3.map(|l| l.into_inner().len())), ("find_n", r4)] {
            match &r {
                Err(e) if is_ns_err(e) => {}
                other => return Err(format!("{name} with ns={} -> {other:?}", f.ns)),
            }
        }
        st.class("ns_refused");
    } else {
        for (name, e) in [("UtcDateTime::new", r1.err()), ("DateTime::new", r2.err()), ("find", r3.err()), ("find_n", r4.err())] {
            if let Some(e) = e {
                if is_ns_err(&e) {
                    return Err(format!("{name} refused valid ns={} with {e:?}", f.ns));
                }
            }
        }
        st.class("ns_ok");
    }
    Ok(())
}

pub fn replay(kind: &str, case: &Value) -> Result<(), String> {
    match kind {
        "nsarg" => check_nsarg(&serde_json::from_value(case.clone()).map_err(|e| e.to_string())?, &mut Stats::new()),
        _ => check_nano(&serde_json::from_value(case.clone()).map_err(|e| e.to_string())?, &mut Stats::new(), false),
    }
}

fn arb_i128() -> SBoxedStrategy<i128> {
    let lo = cal::min_unix() as i128 * E9;
    let hi = cal::max_unix() as i128 * E9 + 999_999_999;
    prop_oneof![
        3 => lo..=hi,
        2 => any::<i128>(),
        3 => (gens::arb_unix_time(), -1i128..=1, proptest::sample::select(vec![0i128, 1, 999_999_999, 500_000_000])).prop_map(|(t, e, r)| t as i128 * E9 + e + r),
        2 => (-100_000i128..100_000, -1i128..=1).prop_map(|(k, e)| k * E9 + e),
        2 => (-9_300_000_000i128..9_300_000_000, prop_oneof![Just(0i128), 0i128..1_000_000_000]).prop_map(|(k, r)| k * E9 + r),
        2 => (-5_000_000_000_000_000_000i128..5_000_000_000_000_000_000i128),
        1 => (proptest::sample::select(vec![i128::MIN, i128::MAX, i64::MIN as i128 * E9, i64::MAX as i128 * E9, (i64::MAX as i128 + 1) * E9, (i64::MIN as i128 - 1) * E9, 0]), -3i128..=3).prop_map(|(b, e)| b.saturating_add(e)),
    ]
    .sboxed()
}

pub fn arb_offset() -> SBoxedStrategy<i32> {
    prop_oneof![
        2 => Just(0i32),
        3 => (-100i32..=100).prop_map(|k| k * 900),
        2 => -3600i32..3600,
        2 => (i32::MIN + 1)..=i32::MAX,
        1 => proptest::sample::select(vec![i32::MAX, i32::MIN + 1, 1, -1, 59, -59, 60, -60, 3599, -3599, 86400, -86400]),
    ]
    .sboxed()
}

pub fn run(ctx: &Ctx) -> Outcome {
    let mut out = Outcome::new(
        "i128 counts: (a) enumeration k*1e9+e for k in {0, +-1..+-2000, MIN/MAX_UNIX_TIME +-2, i64::MIN/MAX +-2} x e in {-2..2, +-999999999, +-500000000}; i128 extremes; \
         (b) proptest mixture (uniform in range, uniform i128, unix-time mixture x {0,1,5e8,999999999} +-1, small multiples, +-5e18) x offsets over the full i32 range; \
         (c) valid fields with valid/invalid nanosecond arguments through new/find/find_n. Non-trivial: negative count that is not a multiple of 1e9, or within 2 ns of a refusal boundary / zero, or an invalid nanosecond argument.",
    );
    out.assumptions = vec!["reference split uses truncating / and % with a fix-up (independent of div_euclid)".into()];
    // (a)
    let rs = par_shards(1, |_, st| {
        let mut ks: Vec<i128> = (-2000..=2000).collect();
        for b in [cal::min_unix() as i128, cal::max_unix() as i128, i64::MIN as i128, i64::MAX as i128, i32::MIN as i128, i32::MAX as i128] {
            for d in -2..=2 {
                ks.push(b + d);
            }
        }
        for k in ks {
            for e in [-2i128, -1, 0, 1, 2, 999_999_999, -999_999_999, 500_000_000, -500_000_000, 999_999_998] {
                for off in [0, 3600, -1] {
                    let c = NanoCase { n: (k * E9 + e).to_string(), off };
                    check_enum("nano", &c, st, |c, st| check_nano(c, st, true))?;
                }
            }
        }
        // limits of narrower integer types of the nanosecond count itself (a 64-bit fast path would break exactly here)
        for b in [i64::MAX as i128, i64::MIN as i128, u64::MAX as i128, 1i128 << 64, -(1i128 << 64), u32::MAX as i128, i32::MAX as i128, i32::MIN as i128, (i32::MAX as i128) * E9, (i32::MIN as i128) * E9, (u32::MAX as i128) * E9] {
            for d in -3i128..=3 {
                for off in [0, 3600] {
                    let c = NanoCase { n: (b + d).to_string(), off };
                    check_enum("nano", &c, st, |c, st| check_nano(c, st, true))?;
                }
            }
            // the whole second containing the limit
            for r in [0i128, 1, 854_775_807, 854_775_808, 999_999_999] {
                let base = (b / E9) * E9;
                for sgn in [1i128, -1] {
                    let c = NanoCase { n: (base + sgn * r).to_string(), off: 0 };
                    check_enum("nano", &c, st, |c, st| check_nano(c, st, true))?;
                }
            }
        }
        for n in [i128::MIN, i128::MIN + 1, i128::MIN + 999_999_999, i128::MIN + 1_000_000_000, i128::MAX, i128::MAX - 1, i128::MAX - 999_999_999, i128::MAX - 1_000_000_000] {
            for off in [0, 1, -1, 3600, -3600, 86_399, i32::MAX, i32::MIN + 1] {
                let c = NanoCase { n: n.to_string(), off };
                check_enum("nano", &c, st, |c, st| check_nano(c, st, true))?;
            }
        }
        Ok(())
    });
    out.absorb_all(rs);
    if out.failure.is_some() {
        return out;
    }
    // (b)
    let cases = ctx.tier.pick(240_000u32, 6_000_000u32);
    let strat = (arb_i128(), arb_offset()).prop_map(|(n, off)| NanoCase { n: n.to_string(), off });
    let rs = par_shards(16, |shard, st| pt_shard(ctx, "nano", shard, cases, &strat, st, |c, st| check_nano(c, st, false)));
    out.absorb_all(rs);
    if out.failure.is_some() {
        return out;
    }
    // (c)
    let strat = (gens::arb_valid_fields(), prop_oneof![1 => gens::arb_valid_ns(), 1 => 1_000_000_000u32..=u32::MAX, 1 => proptest::sample::select(vec![1_000_000_000u32, 1_000_000_001, u32::MAX])], arb_offset()).prop_map(|(mut f, ns, off)| {
        f.ns = ns;
        NsArgCase { f, off }
    });
    let cases = ctx.tier.pick(80_000u32, 1_000_000u32);
    let rs = par_shards(8, |shard, st| pt_shard(ctx, "nsarg", 100 + shard, cases, &strat, st, check_nsarg));
    out.absorb_all(rs);
    out
}
