//! C07 — no panic, overflow or abort: every failure on any input is a returned error.
//! This module is the coverage-independent half (structured enumeration + corpus replay) and the evidence writer;
//! the coverage-guided half (three libFuzzer targets in /verif/fuzz calling fuzz_entry) is driven by checks/C07.sh.
use crate::fuzz_entry;
use crate::gens::{self, ZoneCfg};
use crate::props::c08::zoneinfo_files;
use crate::run::*;
use proptest::prelude::*;
use serde_json::{json, Value};
use std::io::{Seek, SeekFrom, Write};

const COUNT_VALUES: [u32; 7] = [0, 1, 255, 65_536, 1 << 24, 1 << 31, u32::MAX];
const FLIP_VALUES: [u8; 5] = [0x00, 0x01, 0x7f, 0x80, 0xff];

struct Journal {
    f: Option<std::fs::File>,
}
impl Journal {
    fn new(shard: u64) -> Self {
        let dir = crate::run::verif_dir().join("build/c07-journal");
        let _ = std::fs::create_dir_all(&dir);
        let tag = std::env::var("VERIF_C07_PROFILE").unwrap_or_else(|_| "checked".into());
        Journal { f: std::fs::File::create(dir.join(format!("{tag}-{shard}.txt"))).ok() }
    }
    /// remember the case being executed so that an abort (allocation failure, stack overflow) still leaves a reproduction
    fn set(&mut self, id: &str) {
        if let Some(f) = &mut self.f {
            let mut b = [b' '; 64];
            let n = id.len().min(63);
            b[..n].copy_from_slice(&id.as_bytes()[..n]);
            b[63] = b'\n';
            let _ = f.seek(SeekFrom::Start(0));
            let _ = f.write_all(&b);
        }
    }
    fn clear(&mut self) {
        self.set("done");
    }
}

/// Second header offset of a v2+ file (None for v1 / unreadable).
fn second_header(bytes: &[u8]) -> Option<usize> {
    if bytes.len() < 44 || &bytes[..4] != b"TZif" || bytes[4] == 0 {
        return None;
    }
    let c = |k: usize| u32::from_be_bytes(bytes[20 + 4 * k..24 + 4 * k].try_into().unwrap()) as usize;
    let (isut, isstd, leap, time, typ, chr) = (c(0), c(1), c(2), c(3), c(4), c(5));
    Some(44 + time * 4 + time + typ * 6 + chr + leap * 8 + isstd + isut)
}

/// Reconstruct the bytes of an enumerated case from its id.
pub fn case_bytes(id: &str, files: &[std::path::PathBuf]) -> Option<Vec<u8>> {
    let p: Vec<&str> = id.trim().split(':').collect();
    let fi: usize = p.get(1)?.parse().ok()?;
    let mut b = std::fs::read(files.get(fi)?).ok()?;
    match *p.first()? {
        "A" => {
            let n: usize = p.get(2)?.parse().ok()?;
            b.truncate(n);
        }
        "B" => {
            let h: usize = p.get(2)?.parse().ok()?;
            let f: usize = p.get(3)?.parse().ok()?;
            let v: usize = p.get(4)?.parse().ok()?;
            let base = if h == 0 { 0 } else { second_header(&b)? };
            let at = base + 20 + 4 * f;
            if at + 4 > b.len() {
                return None;
            }
            b[at..at + 4].copy_from_slice(&COUNT_VALUES[v].to_be_bytes());
        }
        "C" => {
            let pos: usize = p.get(2)?.parse().ok()?;
            let v: usize = p.get(3)?.parse().ok()?;
            *b.get_mut(pos)? = FLIP_VALUES[v];
        }
        _ => return None,
    }
    Some(b)
}

fn run_bytes(target: &str, bytes: &[u8], st: &mut Stats) -> Result<(), Failure> {
    st.eval(1);
    let r = std::panic::catch_unwind(std::panic::AssertUnwindSafe(|| fuzz_entry::run_target(target, bytes)));
    let case = json!({"target": target, "bytes": bytes});
    match r {
        Ok(Ok(())) => Ok(()),
        Ok(Err(m)) => Err(Failure::new("bytes", m, case)),
        Err(p) => {
            let m = panic_msg(&p);
            if m.starts_with(HARNESS_PANIC) {
                Err(Failure::new("infra", m, case))
            } else {
                Err(Failure::new("bytes", format!("PANIC: {m}"), case))
            }
        }
    }
}

pub fn replay(kind: &str, case: &Value) -> Result<(), String> {
    match kind {
        "journal" => {
            // ids of the cases that were running when the process died: re-executing them aborts again (the wrapper reports it)
            let files = zoneinfo_files();
            for id in case["ids"].as_array().cloned().unwrap_or_default() {
                if let Some(b) = id.as_str().and_then(|s| case_bytes(s, &files)) {
                    fuzz_entry::tzif(&b)?;
                }
            }
            Ok(())
        }
        "render" => {
            let (y, o): (i32, i32) = serde_json::from_value(case.clone()).map_err(|e| e.to_string())?;
            render_extreme(y, o)
        }
        "zone" => {
            let z: crate::model::MZone = serde_json::from_value(case.clone()).map_err(|e| e.to_string())?;
            exercise_model_zone(&z)
        }
        _ => {
            let target = case["target"].as_str().unwrap_or("tzif").to_string();
            let bytes: Vec<u8> = serde_json::from_value(case["bytes"].clone()).map_err(|e| e.to_string())?;
            fuzz_entry::run_target(&target, &bytes)
        }
    }
}

/// Replay of a raw libFuzzer artifact (file name starts with the target name).
pub fn replay_raw(path: &str) -> Result<(), String> {
    let name = std::path::Path::new(path).file_name().and_then(|s| s.to_str()).unwrap_or("");
    let target = fuzz_entry::TARGETS.iter().find(|t| name.starts_with(*t)).ok_or_else(|| format!("cannot tell the fuzz target from the file name {name}"))?;
    let bytes = std::fs::read(path).map_err(|e| e.to_string())?;
    fuzz_entry::run_target(target, &bytes)
}

fn render_extreme(y: i32, o: i32) -> Result<(), String> {
    use std::fmt::Write as _;
    let ltt = tz::LocalTimeType::with_ut_offset(o).map_err(|e| format!("{e:?}"))?;
    for (mo, d, h, mi, s) in [(1u8, 1u8, 0u8, 0u8, 0u8), (12, 31, 23, 59, 60), (6, 15, 12, 30, 30)] {
        if let Ok(dt) = tz::DateTime::new(y, mo, d, h, mi, s, 999_999_999, ltt) {
            let mut text = String::new();
            let _ = write!(text, "{dt}|{dt:>64}|{dt:<3}|{dt:.5}|{dt:^70.80}|{dt:?}");
            if text.len() < 40 {
                return Err(format!("rendering of year {y} offset {o} is implausibly short: {text:?}"));
            }
        }
        if let Ok(u) = tz::UtcDateTime::new(y, mo, d, h, mi, s.min(59), 1) {
            let _ = format!("{u}|{u:>64}|{u:.3}|{u:?}");
        }
    }
    Ok(())
}

fn exercise_model_zone(z: &crate::model::MZone) -> Result<(), String> {
    if let Ok(t) = z.to_tz() {
        fuzz_entry::exercise_zone(t.as_ref(), 64);
    }
    // the same table with a fixed trailer equal to the last transition's type, and without trailer: both constructors, every query
    if let Some(&(_, i)) = z.trans.last() {
        if let Some(last) = z.types.get(i) {
            for trailer in [crate::model::MTrailer::Fixed(last.clone()), crate::model::MTrailer::None] {
                let mut z2 = z.clone();
                z2.trailer = trailer;
                if let Ok(t) = z2.to_tz() {
                    fuzz_entry::exercise_zone(t.as_ref(), 64);
                }
            }
        }
    }
    Ok(())
}

fn corpus_files(target: &str) -> Vec<std::path::PathBuf> {
    let mut v: Vec<_> = std::fs::read_dir(crate::run::verif_dir().join("corpus").join(target)).map(|rd| rd.flatten().map(|e| e.path()).filter(|p| p.is_file()).collect()).unwrap_or_default();
    v.sort();
    v
}

pub fn run(ctx: &Ctx) -> Outcome {
    let mut out = Outcome::new(
        "Coverage-independent half: (A) every truncation point of every distinct TZif file of the vendored tzdata snapshot (894 files); (B) every header count of both headers of every file set to {0, 1, 255, 2^16, 2^24, 2^31, 2^32-1}; (C) every byte of a sample of files overwritten with {00, 01, 7f, 80, ff}; \
         (D) proptest: random byte strings through the structured-API decoder (constructor arguments biased to i64/i32 extremes) and generated valid zones with i64-wide transition times / full-i32 offsets through every public query; (E) replay of the committed corpora of the three fuzz targets. \
         Coverage-guided half (reported under coverage.fuzz): libFuzzer campaigns on the targets tzif / tzstr / api from the committed seed corpora, fixed number of runs, semantic oracles (C08 reference decoding, C09 recogniser, owned-vs-borrowed constructors) inside the targets. \
         Oracle: no panic / overflow trap / out-of-bounds / abort; peak heap during from_tz_data <= 16*len + 4 KiB and no single request above it (counting allocator; requests > 1 GiB are refused). Both halves run with overflow checks + debug assertions on and again with both off. \
         Non-trivial: input accepted by the parser or rejected after the header was read (block parsing reached), or a constructor argument within 4 of an integer limit.",
    );
    out.assumptions = vec![
        "32-bit targets (where count * 8 could wrap usize) are not installed in this image".into(),
        "a libFuzzer time-out is reported as inconclusive (exit 2), never as a violation".into(),
    ];
    let files = zoneinfo_files();
    if files.len() < 800 {
        out.failure = Some(Failure::new("infra", "tzdata snapshot not unpacked: run ./setup.sh", json!(null)));
        return out;
    }
    let fr = &files;
    let n_shards = 32u64;
    let flip_every = ctx.tier.pick(23usize, 3usize);
    let rs = par_shards(n_shards, |shard, st| {
        let mut j = Journal::new(shard);
        for (fi, p) in fr.iter().enumerate() {
            if fi as u64 % n_shards != shard {
                continue;
            }
            let bytes = std::fs::read(p).map_err(|e| Failure::new("infra", format!("{p:?}: {e}"), json!(null)))?;
            // (B) first: moderate hostile counts are caught by the heap bound before the huge ones can abort the process
            let sec = second_header(&bytes);
            for (h, base) in [(0usize, Some(0usize)), (1, sec)] {
                let Some(base) = base else { continue };
                for f in 0..6 {
                    for (vi, v) in COUNT_VALUES.iter().enumerate() {
                        let at = base + 20 + 4 * f;
                        if at + 4 > bytes.len() {
                            continue;
                        }
                        let mut b = bytes.clone();
                        b[at..at + 4].copy_from_slice(&v.to_be_bytes());
                        j.set(&format!("B:{fi}:{h}:{f}:{vi}"));
                        run_bytes("tzif", &b, st)?;
                        st.nontrivial_exact(1);
                    }
                }
            }
            // (A)
            for n in 0..=bytes.len() {
                j.set(&format!("A:{fi}:{n}"));
                run_bytes("tzif", &bytes[..n], st)?;
                if n >= 44 {
                    st.nontrivial_exact(1);
                }
            }
            // (C)
            if fi % flip_every == 0 {
                for pos in 0..bytes.len() {
                    for (vi, v) in FLIP_VALUES.iter().enumerate() {
                        if bytes[pos] == *v {
                            continue;
                        }
                        let mut b = bytes.clone();
                        b[pos] = *v;
                        j.set(&format!("C:{fi}:{pos}:{vi}"));
                        run_bytes("tzif", &b, st)?;
                        st.nontrivial_exact(1);
                    }
                }
                st.class("files_with_every_byte_flipped");
            }
            st.class("real_files");
        }
        j.clear();
        Ok(())
    });
    out.absorb_all(rs);
    if out.failure.is_some() {
        return out;
    }
    // (E) corpora
    for t in fuzz_entry::TARGETS {
        let cf = corpus_files(t);
        let cfr = &cf;
        let rs = par_shards(8, |shard, st| {
            for (i, p) in cfr.iter().enumerate() {
                if i as u64 % 8 != shard {
                    continue;
                }
                let b = std::fs::read(p).unwrap_or_default();
                run_bytes(t, &b, st)?;
                st.class(&format!("corpus_{t}"));
            }
            Ok(())
        });
        out.absorb_all(rs);
        if out.failure.is_some() {
            return out;
        }
    }
    // (D) proptest
    let cases = ctx.tier.pick(30_000u32, 1_500_000u32);
    let s_api = proptest::collection::vec(any::<u8>(), 0..400);
    let rs = par_shards(16, |shard, st| {
        pt_shard(ctx, "api", shard, cases, &s_api, st, |b, st| {
            st.eval(1);
            st.nontrivial(b);
            fuzz_entry::api(b)
        })
        .map_err(|mut f| {
            if f.kind == "api" {
                f.kind = "bytes".into();
                f.case = json!({"target": "api", "bytes": f.case});
            }
            f
        })
    });
    out.absorb_all(rs);
    if out.failure.is_some() {
        return out;
    }
    let s_str = prop_oneof![crate::props::c09::arb_sentence(true).prop_map(|s| s.into_bytes()), crate::props::c09::arb_wrap_or_space(), proptest::collection::vec(proptest::sample::select(b"AZaz09+-:,/.JM<> \0\x80\n".to_vec()), 0..40)];
    let rs = par_shards(8, |shard, st| {
        pt_shard(ctx, "tzstr", 100 + shard, cases, &s_str, st, |b, st| {
            st.eval(1);
            st.nontrivial(b);
            fuzz_entry::tzstr(b)
        })
        .map_err(|mut f| {
            if f.kind == "tzstr" {
                f.kind = "bytes".into();
                f.case = json!({"target": "tzstr", "bytes": f.case});
            }
            f
        })
    });
    out.absorb_all(rs);
    if out.failure.is_some() {
        return out;
    }
    let s_zone = prop_oneof![3 => gens::arb_zone(ZoneCfg { max_trans: 12, leaps: true, wide_times: true }), 2 => gens::arb_aligned_zone(), 2 => gens::arb_leap_adjacent_zone(), 1 => gens::arb_range_edge_zone(), 1 => gens::arb_many_types_zone()];
    let cases_z = ctx.tier.pick(4_000u32, 100_000u32);
    let rs = par_shards(16, |shard, st| {
        pt_shard(ctx, "zone", 200 + shard, cases_z, &s_zone, st, |z, st| {
            st.eval(1);
            st.nontrivial(z);
            exercise_model_zone(z)
        })
    });
    out.absorb_all(rs);
    // every day notation as start and as end of a rule, queried at both ends of the year range (year arithmetic next to the i32 limits)
    {
        use crate::model::{MDay, MLtt, MRule, MTrailer, MZone, N_NOTATIONS};
        let rs = par_shards(N_NOTATIONS as u64, |shard, st| {
            let a = MDay::from_index(shard as usize);
            for (start, end) in [(a, MDay::J1(200)), (MDay::J1(100), a)] {
                for (so, doff, stt, et) in [(0, 3600, 7200, 7200), (-89_999, 93_599, -604_799, 604_799), (93_599, -89_999, 604_799, -604_799)] {
                    let rule = MRule { std: MLtt::new(so, false, Some("STD")), dst: MLtt::new(doff, true, Some("DST")), start, start_time: stt, end, end_time: et };
                    let z = MZone { trans: vec![], types: vec![rule.std.clone(), rule.dst.clone()], leaps: vec![], trailer: MTrailer::Alt(rule) };
                    check_enum("zone", &z, st, |z, st| {
                        st.eval(1);
                        st.nontrivial_exact(1);
                        exercise_model_zone(z)
                    })?;
                }
            }
            Ok(())
        });
        out.absorb_all(rs);
        if out.failure.is_some() {
            return out;
        }
    }
    // renderings at the extremes of year and offset (the longest texts the formatter can produce), with and without format specs
    {
        let rs = par_shards(1, |_, st| {
            let years = [i32::MIN, i32::MIN + 1, -2_000_000_000, -1_000_000_000, -999_999_999, -1, 0, 9999, 10_000, 1_000_000_000, i32::MAX];
            let offs = [i32::MAX, -i32::MAX, i32::MAX - 7, -(i32::MAX - 7), 360_000_000, 359_999_999, -359_999_999, 86_399, -86_399, 59, -59, 0];
            for &y in &years {
                for &o in &offs {
                    let c = (y, o);
                    check_enum("render", &c, st, |&(y, o), st| {
                        st.eval(1);
                        st.nontrivial_exact(1);
                        render_extreme(y, o)
                    })?;
                }
            }
            Ok(())
        });
        out.absorb_all(rs);
        if out.failure.is_some() {
            return out;
        }
    }
    // merge libFuzzer statistics written by checks/C07.sh
    if let Ok(text) = std::fs::read_to_string(crate::run::verif_dir().join("build/c07-fuzzstats.json")) {
        if let Ok(v) = serde_json::from_str::<Value>(&text) {
            let execs: u64 = v["targets"].as_array().map(|a| a.iter().map(|t| t["execs"].as_u64().unwrap_or(0)).sum()).unwrap_or(0);
            out.stats.evaluations += execs;
            out.extra.insert("fuzz".into(), v);
        }
    }
    out.extra.insert("profile".into(), json!(std::env::var("VERIF_C07_PROFILE").unwrap_or_else(|_| "checked (overflow-checks + debug-assertions on)".into())));
    out
}
