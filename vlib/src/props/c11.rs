//! C11 — DST rule constructor accepts exactly the rules whose start/end order never flips.
use crate::model::{MDay, MLtt, MRule, N_NOTATIONS};
use crate::orule::{self, Class, DayTables};
use crate::run::*;
use proptest::prelude::*;
use serde::{Deserialize, Serialize};
use serde_json::{json, Value};
use tz::error::timezone::TransitionRuleError as TRE;
use tz::timezone::{AlternateTime, Julian0WithLeap, Julian1WithoutLeap, LocalTimeType, MonthWeekDay};
use tz::TzError;

const WEEK: i64 = 604800;
const OFF_LO: i64 = -25 * 3600; // exclusive
const OFF_HI: i64 = 26 * 3600; // exclusive

#[derive(Debug, Clone, Serialize, Deserialize, PartialEq, Eq, Hash)]
pub struct RuleArgs {
    pub start: MDay,
    pub end: MDay,
    pub st: i32,
    pub so: i32,
    pub et: i32,
    pub doff: i32,
    /// how the two local time types are dressed (DST flags, designations): irrelevant to acceptance, which the property ties to the
    /// numeric conditions alone. 0: std plain / dst flagged; 1: both plain and unnamed (identical types when the offsets agree);
    /// 2: both flagged and named alike; 3: flags the other way round, different names
    #[serde(default)]
    pub dress: u8,
}

fn dress(k: u8) -> ((bool, Option<&'static [u8]>), (bool, Option<&'static [u8]>)) {
    match k {
        1 => ((false, None), (false, None)),
        2 => ((true, Some(b"ABC")), (true, Some(b"ABC"))),
        3 => ((true, Some(b"SUMMER")), (false, Some(b"-03"))),
        _ => ((false, None), (true, None)),
    }
}

impl RuleArgs {
    pub fn rule(&self) -> MRule {
        MRule { std: MLtt::new(self.so, false, None), dst: MLtt::new(self.doff, true, None), start: self.start, start_time: self.st, end: self.end, end_time: self.et }
    }
}

fn call(a: &RuleArgs) -> Result<Result<AlternateTime, TRE>, String> {
    let ((f1, n1), (f2, n2)) = dress(a.dress);
    let std = LocalTimeType::new(a.so, f1, n1).map_err(|e| format!("{e:?}"))?;
    let dst = LocalTimeType::new(a.doff, f2, n2).map_err(|e| format!("{e:?}"))?;
    let s = a.start.to_tz().map_err(|e| format!("{e:?}"))?;
    let e = a.end.to_tz().map_err(|e| format!("{e:?}"))?;
    Ok(AlternateTime::new(std, dst, s, a.st, e, a.et))
}

/// Full check of one argument tuple; `stable` = order stability decided by the caller's oracle (None: decide here by direct 400-year evaluation).
pub fn check_args(a: &RuleArgs, stable: Option<bool>, st: &mut Stats) -> Result<(), String> {
    st.eval(1);
    let got = call(a)?;
    let bad_std = !(OFF_LO < a.so as i64 && (a.so as i64) < OFF_HI);
    let bad_dst = !(OFF_LO < a.doff as i64 && (a.doff as i64) < OFF_HI);
    let bad_time = !((a.st as i64).abs() < WEEK && (a.et as i64).abs() < WEEK);
    if bad_std || bad_dst || bad_time {
        let mut allowed = vec![];
        if bad_std {
            allowed.push("InvalidStdUtcOffset");
        }
        if bad_dst {
            allowed.push("InvalidDstUtcOffset");
        }
        if bad_time {
            allowed.push("InvalidDstStartEndTime");
        }
        let name = match &got {
            Ok(_) => return Err(format!("{a:?}: out-of-window argument accepted")),
            Err(TRE::InvalidStdUtcOffset) => "InvalidStdUtcOffset",
            Err(TRE::InvalidDstUtcOffset) => "InvalidDstUtcOffset",
            Err(TRE::InvalidDstStartEndTime) => "InvalidDstStartEndTime",
            Err(e) => return Err(format!("{a:?}: expected one of {allowed:?}, got {e:?}")),
        };
        if !allowed.contains(&name) {
            return Err(format!("{a:?}: refused with {name}, but the violated condition(s) are {allowed:?}"));
        }
        st.class("window_refusal");
        return Ok(());
    }
    let stable = stable.unwrap_or_else(|| orule::classify(&a.rule()) != Class::Unstable);
    match (&got, stable) {
        (Ok(r), true) => {
            // accessors give back what went in
            let ((f1, _), (f2, _)) = dress(a.dress);
            if r.dst_start_time() != a.st || r.dst_end_time() != a.et || r.std().ut_offset() != a.so || r.dst().ut_offset() != a.doff || r.std().is_dst() != f1 || r.dst().is_dst() != f2 || *r.dst_start() != a.start.to_tz().unwrap() || *r.dst_end() != a.end.to_tz().unwrap() {
                return Err(format!("{a:?}: accessors of the accepted rule differ from the arguments"));
            }
            st.class("accepted");
            Ok(())
        }
        (Err(TRE::InconsistentRule), false) => {
            st.class("refused_inconsistent");
            Ok(())
        }
        (Ok(_), false) => Err(format!("{a:?}: start/end order flips between years (d = {}) but the rule was accepted", a.rule().d())),
        (Err(e), true) => Err(format!("{a:?}: start/end order is the same in every year (d = {}) but the rule was refused with {e:?}", a.rule().d())),
        (Err(e), false) => Err(format!("{a:?}: expected InconsistentRule, got {e:?}")),
    }
}

pub fn replay(_kind: &str, case: &Value) -> Result<(), String> {
    check_args(&serde_json::from_value(case.clone()).map_err(|e| e.to_string())?, None, &mut Stats::new())
}

fn uni(rng: &mut impl proptest::prelude::RngCore, lo: i64, hi: i64) -> i64 {
    // uniform in lo..=hi
    let span = (hi - lo + 1) as u128;
    lo + ((rng.next_u64() as u128 * span) >> 64) as i64
}

/// Realise a given d as (st, so, et, doff) with all four inside their windows.
fn split_d(rng: &mut impl proptest::prelude::RngCore, d: i64, same_offsets: bool) -> Option<(i32, i32, i32, i32)> {
    // d = A + B, A = st - et in [-(2W-2), 2W-2], B = doff - so in [-(OFF_HI-OFF_LO-2), ..]
    let amax = 2 * (WEEK - 1);
    let bmax = (OFF_HI - 1) - (OFF_LO + 1);
    let blo = (-bmax).max(d - amax);
    let bhi = bmax.min(d + amax);
    if blo > bhi || (same_offsets && !(blo..=bhi).contains(&0)) {
        return None;
    }
    let b = if same_offsets { 0 } else { uni(rng, blo, bhi) };
    let a = d - b;
    // st in [-(W-1), W-1], et = st - a in range
    let st_lo = (-(WEEK - 1)).max(a - (WEEK - 1));
    let st_hi = (WEEK - 1).min(a + (WEEK - 1));
    let stt = uni(rng, st_lo, st_hi);
    let et = stt - a;
    let so_lo = (OFF_LO + 1).max(OFF_LO + 1 - b);
    let so_hi = (OFF_HI - 1).min(OFF_HI - 1 - b);
    let so = uni(rng, so_lo, so_hi);
    let doff = so + b;
    Some((stt as i32, so as i32, et as i32, doff as i32))
}

pub fn run(ctx: &Ctx) -> Outcome {
    let mut out = Outcome::new(
        "COMPLETE enumeration of the stated quotient: all 1151 x 1151 (start, end) day-notation pairs x every d = (start_time - std_off) - (end_time - dst_off) in {k*86400 + e : e in -1..=1 (thorough -2..=2), |d| <= 16 d 3 h - 4 s (the largest the argument windows allow)}, \
         each d realised by seeded random splits into two times in (-7 d, 7 d) and two offsets in (-25 h, 26 h) (quick 1 split, thorough 3). Oracle: brute-force evaluation of S(y)-E(y), E(y)-S(y+1), S(y)-E(y+1) over a full 400-year cycle from O-cal (ties compatible with both signs). \
         Plus window-edge cases for the other error kinds, day-constructor bounds, and a proptest of arbitrary argument tuples decided by direct 400-year evaluation. \
         Non-trivial: (pair, d) decisions belonging to a pair whose answer depends on d (at least one d refused and one accepted); every enumerated decision is distinct.",
    );
    out.assumptions = vec![
        "'never change sign' is read as: all <= 0 or all >= 0 (a tie is compatible with either order) - the reading the crate's own unit test pins (M*.5.2/0 vs M*.5.3/-24 accepted)".into(),
        "acceptance depends on times/offsets only through d: tested by realising each d through random splits".into(),
    ];
    let tables = DayTables::build();
    // oracle self-test: spans-based decision == direct classification on a sample
    {
        let mut dr = Drawer::new(ctx, "selftest", 0);
        for _ in 0..3000 {
            let s = dr.draw(&(0..N_NOTATIONS));
            let e = if dr.draw(&(0..3u8)) == 0 { s } else { dr.draw(&(0..N_NOTATIONS)) };
            let k = dr.draw(&(-16i64..=16));
            let ee = dr.draw(&(-2i64..=2));
            let d = k * 86400 + ee;
            let sp = tables.spans(s, e);
            let r = MRule { std: MLtt::new(0, false, None), dst: MLtt::new(0, true, None), start: MDay::from_index(s), start_time: 0, end: MDay::from_index(e), end_time: 0 };
            // realise d through end_time/start_time beyond windows is fine for the oracle comparison (pure arithmetic)
            let mut r2 = r.clone();
            r2.start_time = (d / 2) as i32;
            r2.end_time = (d / 2 - d) as i32;
            if (orule::classify(&r2) != Class::Unstable) != orule::order_stable(&sp, d) {
                out.failure = Some(Failure::new("infra", format!("C11 oracle self-test: spans decision differs from direct evaluation for {r2:?}"), json!(null)));
                return out;
            }
        }
    }
    let es: Vec<i64> = ctx.tier.pick(vec![-1, 0, 1], vec![-2, -1, 0, 1, 2]);
    let splits = ctx.tier.pick(1, 3);
    let dmax = 2 * (WEEK - 1) + ((OFF_HI - 1) - (OFF_LO + 1)); // 16 d 3 h - 4 s: the largest |d| the windows allow
    let mut ds: Vec<i64> = vec![];
    for k in -17i64..=17 {
        for e in &es {
            let d = k * 86400 + e;
            if d.abs() <= dmax {
                ds.push(d);
            }
        }
    }
    ds.push(dmax);
    ds.push(-dmax);
    let (tr, dsr) = (&tables, &ds);
    let rs = par_shards(N_NOTATIONS as u64, |shard, st| {
        let s_idx = shard as usize;
        let start = MDay::from_index(s_idx);
        let mut rng = rng_for(ctx, "split", shard);
        for e_idx in 0..N_NOTATIONS {
            let end = MDay::from_index(e_idx);
            let sp = tr.spans(s_idx, e_idx);
            let mut n_acc = 0u64;
            let mut n_ref = 0u64;
            for &d in dsr {
                let stable = orule::order_stable(&sp, d);
                for _ in 0..splits {
                    let (stt, so, et, doff) = split_d(&mut rng, d, false).expect("d realisable");
                    let a = RuleArgs { start, end, st: stt, so, et, doff, dress: (rng.next_u32() % 4) as u8 };
                    check_enum("args", &a, st, |a, st| check_args(a, Some(stable), st))?;
                    if stable {
                        n_acc += 1
                    } else {
                        n_ref += 1
                    }
                }
                // the same decision with two identical local time types (equal offsets, flags and names): d is carried by the times alone
                if let Some((stt, so, et, doff)) = split_d(&mut rng, d, true) {
                    let a = RuleArgs { start, end, st: stt, so, et, doff, dress: 1 + (rng.next_u32() % 2) as u8 };
                    check_enum("args", &a, st, |a, st| check_args(a, Some(stable), st))?;
                    st.class("identical_types");
                    if stable {
                        n_acc += 1
                    } else {
                        n_ref += 1
                    }
                }
            }
            if n_acc > 0 && n_ref > 0 {
                st.nontrivial_exact(n_acc + n_ref);
                st.class("pairs_depending_on_d");
                if st.wants_sample("pair_depending_on_d") {
                    st.sample("pair_depending_on_d", || json!({"start": start.spell(), "end": end.spell(), "accepted": n_acc, "refused": n_ref, "spans_days": format!("{sp:?}")}));
                }
            } else if n_ref == 0 {
                st.class("pairs_always_accepted");
            } else {
                st.class("pairs_always_refused");
            }
        }
        Ok(())
    });
    out.absorb_all(rs);
    if out.failure.is_some() {
        return out;
    }
    out.exhaustive = true;
    // window edges and multi-defect tuples
    let rs = par_shards(1, |_, st| {
        let days = [MDay::J1(1), MDay::J1(365), MDay::J0(0), MDay::J0(365), MDay::M(3, 2, 0), MDay::M(11, 1, 0)];
        let offs = [OFF_LO as i32, OFF_LO as i32 + 1, OFF_HI as i32 - 1, OFF_HI as i32, 0, i32::MAX, i32::MIN + 1, -90001, 93601];
        let times = [-(WEEK as i32), -(WEEK as i32) + 1, WEEK as i32 - 1, WEEK as i32, 7200, i32::MAX, i32::MIN, i32::MIN + 1];
        for &s in &days {
            for &e in &days {
                for &so in &offs {
                    for &doff in &offs {
                        for &stt in &times {
                            for &et in &times {
                                let a = RuleArgs { start: s, end: e, st: stt, so, et, doff, dress: ((so as u32 ^ stt as u32) % 4) as u8 };
                                check_enum("args", &a, st, |a, st| {
                                    let r = check_args(a, None, st);
                                    st.nontrivial_exact(1);
                                    r
                                })?;
                            }
                        }
                    }
                }
            }
        }
        // day constructors
        for n in 0..=400u16 {
            if Julian1WithoutLeap::new(n).is_ok() != (1..=365).contains(&n) {
                return Err(Failure::new("infra-day", format!("Julian1WithoutLeap::new({n})"), json!(n)));
            }
            if Julian0WithLeap::new(n).is_ok() != (n <= 365) {
                return Err(Failure::new("infra-day", format!("Julian0WithLeap::new({n})"), json!(n)));
            }
        }
        for m in 0..=255u8 {
            for w in 0..=8u8 {
                for d in 0..=8u8 {
                    st.eval(1);
                    let exp = (1..=12).contains(&m) && (1..=5).contains(&w) && d <= 6;
                    let got = MonthWeekDay::new(m, w, d);
                    if got.is_ok() != exp {
                        return Err(Failure::new("day", format!("MonthWeekDay::new({m},{w},{d}) -> {got:?}"), json!([m, w, d])));
                    }
                    if let Err(e) = got {
                        let ok = match e {
                            TRE::InvalidRuleDayMonth => !(1..=12).contains(&m),
                            TRE::InvalidRuleDayWeek => !(1..=5).contains(&w),
                            TRE::InvalidRuleDayWeekDay => d > 6,
                            _ => false,
                        };
                        if !ok {
                            return Err(Failure::new("day", format!("MonthWeekDay::new({m},{w},{d}) -> {e:?}"), json!([m, w, d])));
                        }
                    }
                }
            }
        }
        Ok(())
    });
    out.absorb_all(rs);
    if out.failure.is_some() {
        return out;
    }
    // proptest: arbitrary tuples (times/offsets not on the d-lattice), decided by direct evaluation
    let strat = (0..N_NOTATIONS, 0..N_NOTATIONS, -700_000i32..700_000, -95_000i32..100_000, -700_000i32..700_000, -95_000i32..100_000, any::<bool>(), 0u8..8).prop_map(|(s, e, stt, so, et, doff, same, dr)| RuleArgs {
        start: MDay::from_index(s),
        end: MDay::from_index(if same { s } else { e }),
        st: stt,
        so,
        et,
        // a quarter of the tuples have equal offsets (with dress 1/2: identical types)
        doff: if dr >= 6 { so } else { doff },
        dress: dr % 4,
    });
    let cases = ctx.tier.pick(20_000u32, 400_000u32);
    let rs = par_shards(16, |shard, st| {
        pt_shard(ctx, "args", 5000 + shard, cases, &strat, st, |a, st| {
            let r = check_args(a, None, st);
            if r.is_ok() && a.start.index().abs_diff(a.end.index()) < 40 {
                st.nontrivial(a);
            }
            r
        })
    });
    out.absorb_all(rs);
    let _ = TzError::OutOfRange;
    out
}
