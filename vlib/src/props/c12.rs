//! C12 — leap seconds: UTC <-> leap-count conversions monotone, consistent, drive lookups.
//! Observed without hooks through a probe zone: types [A, B], one transition (T -> B), trailer Fixed(B), the leap table under test.
use crate::cal;
use crate::gens;
use crate::oleap;
use crate::run::*;
use proptest::prelude::*;
use serde::{Deserialize, Serialize};
use serde_json::{json, Value};
use tz::datetime::FoundDateTimeKind;
use tz::timezone::{LeapSecond, LocalTimeType, TimeZone, Transition, TransitionRule};
use tz::DateTime;

#[derive(Debug, Clone, Serialize, Deserialize, Hash)]
pub struct LeapCase {
    pub leaps: Vec<(i64, i32)>,
    /// transition times (counting scale) to probe; empty = derive from the table (every record -3..=+3 and images of nearby instants)
    pub ts: Vec<i64>,
    pub off_a: i32,
    pub gap: i32,
}

fn derive_ts(leaps: &[(i64, i32)], extra: &[i64]) -> Vec<i64> {
    let mut v: Vec<i64> = extra.to_vec();
    for &(l, _) in leaps {
        for d in -3..=3i64 {
            if let Some(t) = l.checked_add(d) {
                v.push(t);
            }
        }
        // images F(u) of instants around the record
        for d in -3..=3i64 {
            if let Some(u) = l.checked_add(d) {
                let t = oleap::f(leaps, u);
                if t > i64::MIN as i128 && t <= i64::MAX as i128 {
                    v.push(t as i64);
                }
            }
        }
    }
    v.sort();
    v.dedup();
    v.retain(|&t| t > i64::MIN + 1000);
    v
}

pub fn check_leap(c: &LeapCase, st: &mut Stats) -> Result<(), String> {
    // A table whose first record lies before the epoch is outside the statement's "valid leap tables": the constructor refuses it
    // (C13 decides that), and the case is only counted. If the crate at hand *accepts* such a table, it is a table of a zone a user
    // can hold, and the two conversions must still agree with each other and with the sequential model on it (seeded change
    // C12-r13m1: the first-record clause dropped at the constructor, and a "nothing happens before 1970" shortcut in one direction).
    let pre_epoch = c.leaps.first().map(|r| r.0 < 0).unwrap_or(false);
    if pre_epoch {
        let mut shifted = c.leaps.clone();
        let t0 = shifted[0].0;
        for r in shifted.iter_mut() {
            r.0 -= t0;
        }
        if !oleap::valid_table(&shifted) {
            return Err("generator produced an invalid leap table".into());
        }
        let l: Vec<LeapSecond> = c.leaps.iter().map(|&(t, k)| LeapSecond::new(t, k)).collect();
        let ltt = LocalTimeType::utc();
        if TimeZone::new(vec![], vec![ltt], l, None).is_err() {
            st.class("pre_epoch_table_refused");
            return Ok(());
        }
        st.class("pre_epoch_table_accepted");
    } else if !oleap::valid_table(&c.leaps) {
        return Err("generator produced an invalid leap table".into());
    }
    let a = LocalTimeType::new(c.off_a, false, Some(b"AAA")).map_err(|e| format!("{e:?}"))?;
    let b = LocalTimeType::new(c.off_a + c.gap, true, Some(b"BBB")).map_err(|e| format!("{e:?}"))?;
    let leaps: Vec<LeapSecond> = c.leaps.iter().map(|&(t, k)| LeapSecond::new(t, k)).collect();
    let ts = if c.ts.is_empty() { derive_ts(&c.leaps, &[]) } else { derive_ts(&[], &c.ts) };
    let negative = c.leaps.windows(2).any(|w| w[1].1 < w[0].1) || c.leaps.first().map(|r| r.1 < 0).unwrap_or(false);
    let minimal = c.leaps.windows(2).any(|w| w[1].0 - w[0].0 == 28 * 86400 - 1);
    for &t in &ts {
        let zone = TimeZone::new(vec![Transition::new(t, 1)], vec![a, b], leaps.clone(), Some(TransitionRule::Fixed(b))).map_err(|e| format!("probe zone (T={t}) refused: {e:?}"))?;
        let zr = zone.as_ref();
        let u_t = match oleap::g(&c.leaps, t) {
            Some(u) => u,
            None => continue,
        };
        let near_record = c.leaps.iter().any(|r| (r.0 as i128 - t as i128).abs() <= 1);
        if near_record || negative || minimal {
            st.nontrivial(&(&c.leaps, t));
        }
        if near_record {
            st.class("transition_within_1_of_record");
        }
        // forward: B exactly from u_T on, over a window; monotone
        let mut seen_b = false;
        let mut switch: Option<i64> = None;
        for d in -10..=10i64 {
            let u = match u_t.checked_add(d) {
                Some(u) => u,
                None => continue,
            };
            st.eval(1);
            let l = zr.find_local_time_type(u).map_err(|e| format!("leaps {:?} T={t}: lookup at {u} failed: {e:?}", c.leaps))?;
            let is_b = l.is_dst();
            let exp_b = oleap::f(&c.leaps, u) >= t as i128;
            if is_b && !seen_b {
                switch = Some(u);
            }
            if seen_b && !is_b {
                return Err(format!("leaps {:?} T={t}: lookup is not monotone: type A again at u={u} after type B", c.leaps));
            }
            seen_b |= is_b;
            if is_b != exp_b {
                return Err(format!("leaps {:?}: transition recorded at count T={t} must take effect at u={u_t} (min u with F(u) >= T); lookup at u={u} gives {} but F(u)={}", c.leaps, if is_b { "after" } else { "before" }, oleap::f(&c.leaps, u)));
            }
        }
        if switch != Some(u_t) {
            return Err(format!("leaps {:?} T={t}: forward switch observed at {switch:?}, expected {u_t}", c.leaps));
        }
        // search: the gap's reported instant is the very instant at which the forward lookup switches
        if c.gap > 0 && u_t.abs() < 60_000_000_000_000_000 {
            for delta in [0i64, 1, (c.gap as i64) / 2, c.gap as i64 - 1] {
                if delta < 0 || delta >= c.gap as i64 {
                    continue;
                }
                st.eval(1);
                let l = u_t + c.off_a as i64 + delta;
                let cv = cal::civil_from_unix(l as i128);
                let found = DateTime::find(cv.y as i32, cv.mo as u8, cv.d as u8, cv.h as u8, cv.mi as u8, cv.s as u8, 0, zr).map_err(|e| format!("find failed: {e:?}"))?;
                let v = found.into_inner();
                match v.as_slice() {
                    [FoundDateTimeKind::Skipped { before_transition, after_transition }] => {
                        if before_transition.unix_time() != u_t || after_transition.unix_time() != u_t {
                            return Err(format!(
                                "leaps {:?} T={t}: search for local {cv:?} (in the gap) reports the transition at {} / {}, but the forward lookup switches at {u_t}",
                                c.leaps,
                                before_transition.unix_time(),
                                after_transition.unix_time()
                            ));
                        }
                        if before_transition.local_time_type().ut_offset() != c.off_a || after_transition.local_time_type().ut_offset() != c.off_a + c.gap {
                            return Err(format!("leaps {:?} T={t}: gap entry has wrong types", c.leaps));
                        }
                    }
                    other => {
                        return Err(format!("leaps {:?} T={t} (switch {u_t}): local {cv:?} lies in the gap [{}, {}) but the search returned {} entries: {other:?}", c.leaps, u_t + c.off_a as i64, u_t + (c.off_a + c.gap) as i64, other.len()));
                    }
                }
            }
            // just outside the gap: exactly one valid instant, no gap
            for (l, want_u) in [(u_t + c.off_a as i64 - 1, u_t - 1), (u_t + (c.off_a + c.gap) as i64, u_t)] {
                st.eval(1);
                let cv = cal::civil_from_unix(l as i128);
                let v = DateTime::find(cv.y as i32, cv.mo as u8, cv.d as u8, cv.h as u8, cv.mi as u8, cv.s as u8, 0, zr).map_err(|e| format!("find failed: {e:?}"))?.into_inner();
                match v.as_slice() {
                    [FoundDateTimeKind::Normal(d)] if d.unix_time() == want_u => {}
                    other => return Err(format!("leaps {:?} T={t} (switch {u_t}): local {cv:?} adjoins the gap, expected the single instant {want_u}, got {other:?}", c.leaps)),
                }
            }
        }
    }
    // junction probe: table + DST rule + this leap table; the last table transition is one of the rule's own instants recorded on the counting
    // scale. Around it, localtime followed by the search must recover every instant exactly once (the search must place the junction
    // on the UTC scale, like the forward lookup does).
    {
        use crate::model::{MDay, MLtt, MRule, MTrailer, MZone};
        let cet = MLtt::new(3600, false, Some("CET"));
        let cest = MLtt::new(7200, true, Some("CEST"));
        let eu = MRule { std: cet.clone(), dst: cest.clone(), start: MDay::M(3, 5, 0), start_time: 7200, end: MDay::M(10, 5, 0), end_time: 10800 };
        for y in [1973i64, 1999, 2020] {
            for (u_t, to) in [(eu.s(y), 1usize), (eu.e(y), 0usize)] {
                let t_cnt = oleap::f(&c.leaps, u_t);
                if t_cnt > i64::MAX as i128 {
                    continue;
                }
                let mz = MZone { trans: vec![(t_cnt as i64, to)], types: vec![cet.clone(), cest.clone()], leaps: c.leaps.clone(), trailer: MTrailer::Alt(eu.clone()) };
                // type before the first transition is type 0 (CET); make it the right one for an end-of-DST junction
                let mz = if to == 0 { MZone { types: vec![cest.clone(), cet.clone()], trans: vec![(t_cnt as i64, 1)], ..mz } } else { mz };
                let zone = mz.to_tz().map_err(|e| format!("junction probe zone refused (leaps {:?}, y={y}): {e:?}", c.leaps))?;
                let zr = zone.as_ref();
                // the forward lookup switches exactly at u_t (the instant the recorded count denotes)
                let want_after_dst = to == 1 && mz.types.len() == 2 && mz.types[1].dst || (to == 0 && false);
                let _ = want_after_dst;
                for (u, after) in [(u_t - 1, false), (u_t, true), (u_t + 1, true)] {
                    let l = zr.find_local_time_type(u).map_err(|e| format!("junction probe: lookup at {u}: {e:?}"))?;
                    // before the transition: the zone's first type; from it on: the type the transition (and the rule) prescribe
                    let exp_dst = if after { to == 1 } else { to != 1 };
                    if l.is_dst() != exp_dst {
                        return Err(format!("leaps {:?}: zone with table transition at count {t_cnt} (UTC {u_t}) + DST rule: lookup at u={u} gives is_dst={} but the transition takes effect exactly at {u_t}", c.leaps, l.is_dst()));
                    }
                }
                // the first rule-generated transition after the table: the forward lookup switches exactly at the rule's own UTC instant
                // (the rule is read on the UTC scale, not on the counting scale, which differs by the accumulated correction)
                let nx = if to == 1 { eu.e(y) } else { eu.s(y + 1) };
                for d in -70i64..=2 {
                    st.eval(1);
                    let u = nx + d;
                    let l = zr.find_local_time_type(u).map_err(|e| format!("junction probe: lookup at {u}: {e:?}"))?;
                    let exp_dst = if d < 0 { to == 1 } else { to != 1 };
                    if l.is_dst() != exp_dst {
                        return Err(format!("leaps {:?}: zone with one table transition (UTC {u_t}) + EU rule: lookup at u={u} gives is_dst={} but the rule's next transition is at UTC {nx}", c.leaps, l.is_dst()));
                    }
                }
                // the rule-generated forward transition that follows: its gap must be reported at the rule's own UTC instant
                let next_s = if to == 1 { eu.s(y + 1) } else { eu.s(y + 1) };
                {
                    let lcl = next_s + 3600 + 1800; // 02:30 local standard time: inside the gap
                    let cv = cal::civil_from_unix(lcl as i128);
                    let v = DateTime::find(cv.y as i32, cv.mo as u8, cv.d as u8, cv.h as u8, cv.mi as u8, cv.s as u8, 0, zr).map_err(|e| format!("junction probe: find failed: {e:?}"))?.into_inner();
                    match v.as_slice() {
                        [FoundDateTimeKind::Skipped { before_transition, after_transition }] if before_transition.unix_time() == next_s && after_transition.unix_time() == next_s => {}
                        other => return Err(format!("leaps {:?}: zone with a leap table and the EU rule: local {cv:?} lies in the rule-generated gap at UTC {next_s}, search returned {other:?}", c.leaps)),
                    }
                    st.eval(1);
                }
                for d in (-30i64..=30).chain([-3600, 3600, -7200, 7200]) {
                    st.eval(1);
                    let u = u_t + d;
                    let dt = DateTime::from_timespec(u, 0, zr).map_err(|e| format!("junction probe: from_timespec({u}) failed: {e:?}"))?;
                    let v = DateTime::find(dt.year(), dt.month(), dt.month_day(), dt.hour(), dt.minute(), dt.second(), 0, zr).map_err(|e| format!("junction probe: find failed: {e:?}"))?.into_inner();
                    let n = v.iter().filter(|k| matches!(k, FoundDateTimeKind::Normal(x) if x.unix_time() == u)).count();
                    if n != 1 {
                        return Err(format!("leaps {:?}: zone with table transition at count {t_cnt} (UTC {u_t}) + DST rule: the clock shows {dt} at u={u}, but the search lists that instant {n} times: {v:?}", c.leaps));
                    }
                }
            }
        }
    }
    // model laws (self-consistency of the oracle, cheap): monotone F, G(F(u)) = u off deleted instants, inserted second shares the next UTC value
    for &(l, _) in &c.leaps {
        for d in -3..=3i64 {
            if let Some(u) = l.checked_add(d) {
                let fu = oleap::f(&c.leaps, u);
                if u > i64::MIN && oleap::f(&c.leaps, u - 1) > fu {
                    return Err(format!("MODEL: F not monotone at {u}"));
                }
                if fu <= i64::MAX as i128 && !oleap::deleted(&c.leaps, u) && oleap::g(&c.leaps, fu as i64) != Some(u) {
                    return Err(format!("MODEL: G(F({u})) = {:?}", oleap::g(&c.leaps, fu as i64)));
                }
            }
        }
    }
    if st.wants_sample("table") {
        st.sample("table", || json!({"leaps": c.leaps, "probed_transition_counts": ts.len(), "off_a": c.off_a, "gap": c.gap}));
    }
    Ok(())
}

pub fn replay(_kind: &str, case: &Value) -> Result<(), String> {
    check_leap(&serde_json::from_value(case.clone()).map_err(|e| e.to_string())?, &mut Stats::new())
}

pub fn run(ctx: &Ctx) -> Outcome {
    let mut out = Outcome::new(
        "Valid leap tables (positive, negative, mixed steps; gaps exactly 28 d - 1 s, +1, +2, days, years; up to 64 records; times up to 2^61; prefixes of the real 27-record table) x probe zones with the transition at every record -3..=+3 and at the images F(u) of the instants around every record \
         x UTC instants in a +-10 s window (forward lookup) x local times at the gap's first, second, middle and last second and just outside it (search). Oracle: sequential model F, switch instant u_T = min{u : F(u) >= T}. \
         Non-trivial: transition within 1 of a record, or a table with a negative step, or with a minimal spacing.",
    );
    out.assumptions = vec!["probe zone: types [A, B], one transition (T -> B), trailer Fixed(B); the first u with type B reveals the forward conversion, the Skipped entry's instant reveals the inverse conversion".into()];
    // regressions: the repaired F2 input and the crate's own test table
    let regs = vec![
        LeapCase { leaps: vec![(78796799, -1)], ts: vec![], off_a: 0, gap: 3600 },
        LeapCase { leaps: vec![(78796799, -1), (94694398, -2)], ts: vec![], off_a: 0, gap: 3600 },
        LeapCase { leaps: oleap::real_table(), ts: vec![], off_a: -18000, gap: 3600 },
        LeapCase { leaps: vec![(0, 1), (28 * 86400 - 1, 0), (2 * (28 * 86400 - 1), -1), (3 * (28 * 86400 - 1), 0)], ts: vec![], off_a: 3600, gap: 1 },
    ];
    let rs = par_shards(1, |_, st| {
        for c in &regs {
            check_enum("leap", c, st, check_leap)?;
        }
        Ok(())
    });
    out.absorb_all(rs);
    if out.failure.is_some() {
        return out;
    }
    let strat = (gens::arb_leap_table(ctx.tier.pick(12, 64)), proptest::collection::vec(prop_oneof![3 => 0i64..3_000_000_000, 1 => -1000i64..1000, 1 => any::<i64>()], 0..3), prop_oneof![2 => Just(0i32), 2 => (-48i32..56).prop_map(|k| k * 900), 1 => -90000i32..90000], proptest::sample::select(vec![3600i32, 1, 2, 7200, 1800, 0, -3600]))
        .prop_map(|(leaps, extra, off_a, gap)| {
            let ts = if extra.is_empty() { vec![] } else { derive_ts(&leaps, &extra) };
            LeapCase { leaps, ts, off_a, gap }
        });
    // one case in eight: the same table moved so that its first record lies before the epoch (refused by an intact constructor)
    let strat = (strat, prop_oneof![7 => Just(0i64), 1 => prop_oneof![Just(1i64), 1i64..100_000_000, 1i64..4_000_000_000]])
        .prop_map(|(mut c, shift)| {
            if shift > 0 && !c.leaps.is_empty() && c.leaps[0].0 < (1i64 << 40) {
                let d = c.leaps[0].0 + shift;
                for r in c.leaps.iter_mut() {
                    r.0 -= d;
                }
                if !c.ts.is_empty() {
                    c.ts = c.ts.iter().map(|t| t.saturating_sub(d)).collect();
                }
            }
            c
        });
    let cases = ctx.tier.pick(6_000u32, 40_000u32);
    let rs = par_shards(16, |shard, st| pt_shard(ctx, "leap", shard, cases, &strat, st, check_leap));
    out.absorb_all(rs);
    out
}
