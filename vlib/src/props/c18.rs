//! C18 — text rendering is ISO-8601-like, unambiguous, denotes the same instant/offset.
use crate::gens;
use crate::props::c16::arb_offset;
use crate::run::*;
use proptest::prelude::*;
use serde::{Deserialize, Serialize};
use serde_json::{json, Value};
use tz::{DateTime, LocalTimeType, UtcDateTime};

#[derive(Debug, Clone, Serialize, Deserialize)]
pub struct FmtCase {
    pub f: gens::Fields,
    /// None: UtcDateTime; Some(off): DateTime with that offset
    pub off: Option<i32>,
    /// build the DateTime from the instant (from_timespec_and_local) instead of from fields
    pub via_timespec: bool,
    /// the local time type carries a designation / the DST flag (0 none, 1 designation, 2 DST flag, 3 both)
    #[serde(default)]
    pub flavour: u8,
}

#[derive(Debug, PartialEq)]
struct Parsed {
    year: i64,
    mo: u32,
    d: u32,
    h: u32,
    mi: u32,
    s: u32,
    ns: u32,
    off: i64,
    z: bool,
    hour_digits: usize,
    has_sec: bool,
}

/// Independent strict reader of the text form. Any deviation from the documented shape is an error.
fn read(text: &str) -> Result<Parsed, String> {
    let b = text.as_bytes();
    let mut i = 0usize;
    let neg = b.first() == Some(&b'-');
    if neg {
        i += 1;
    }
    let ys = i;
    while i < b.len() && b[i].is_ascii_digit() {
        i += 1;
    }
    if i == ys {
        return Err("no year digits".into());
    }
    let ydig = &text[ys..i];
    if ydig.len() > 1 && ydig.starts_with('0') {
        return Err(format!("year is zero-padded: {ydig}"));
    }
    if neg && ydig == "0" {
        return Err("negative zero year".into());
    }
    let mut year: i64 = ydig.parse().map_err(|_| "year overflow")?;
    if neg {
        year = -year;
    }
    let fixed = |i: &mut usize, n: usize| -> Result<u32, String> {
        if *i + n > b.len() || !b[*i..*i + n].iter().all(|c| c.is_ascii_digit()) {
            return Err(format!("expected {n} digits at {}", *i));
        }
        let v = text[*i..*i + n].parse::<u32>().map_err(|e| e.to_string())?;
        *i += n;
        Ok(v)
    };
    let lit = |i: &mut usize, c: u8| -> Result<(), String> {
        if b.get(*i) != Some(&c) {
            return Err(format!("expected '{}' at {}", c as char, *i));
        }
        *i += 1;
        Ok(())
    };
    lit(&mut i, b'-')?;
    let mo = fixed(&mut i, 2)?;
    lit(&mut i, b'-')?;
    let d = fixed(&mut i, 2)?;
    lit(&mut i, b'T')?;
    let h = fixed(&mut i, 2)?;
    lit(&mut i, b':')?;
    let mi = fixed(&mut i, 2)?;
    lit(&mut i, b':')?;
    let s = fixed(&mut i, 2)?;
    lit(&mut i, b'.')?;
    let ns = fixed(&mut i, 9)?;
    if b.get(i) == Some(&b'Z') {
        if i + 1 != b.len() {
            return Err("trailing characters after Z".into());
        }
        return Ok(Parsed { year, mo, d, h, mi, s, ns, off: 0, z: true, hour_digits: 0, has_sec: false });
    }
    let sign = match b.get(i) {
        Some(b'+') => 1i64,
        Some(b'-') => -1,
        _ => return Err(format!("expected Z or sign at {i}")),
    };
    i += 1;
    let hs = i;
    while i < b.len() && b[i].is_ascii_digit() {
        i += 1;
    }
    let hour_digits = i - hs;
    if hour_digits < 2 {
        return Err("fewer than two offset hour digits".into());
    }
    if hour_digits > 2 && b[hs] == b'0' {
        return Err("offset hours zero-padded beyond two digits".into());
    }
    let oh: i64 = text[hs..i].parse().map_err(|_| "offset hour overflow")?;
    lit(&mut i, b':')?;
    let om = fixed(&mut i, 2)? as i64;
    let mut os = 0i64;
    let mut has_sec = false;
    if i < b.len() {
        lit(&mut i, b':')?;
        os = fixed(&mut i, 2)? as i64;
        has_sec = true;
    }
    if i != b.len() {
        return Err("trailing characters".into());
    }
    if om > 59 || os > 59 {
        return Err("offset minutes/seconds out of range".into());
    }
    Ok(Parsed { year, mo, d, h, mi, s, ns, off: sign * (oh * 3600 + om * 60 + os), z: false, hour_digits, has_sec })
}

pub fn check_fmt(c: &FmtCase, st: &mut Stats) -> Result<(), String> {
    st.eval(1);
    let f = &c.f;
    let (text, fields, off): (String, (i64, u32, u32, u32, u32, u32, u32), i64) = match c.off {
        None => {
            let d = match UtcDateTime::new(f.y, f.mo, f.d, f.h, f.mi, f.s, f.ns) {
                Ok(d) => d,
                Err(_) => {
                    st.exclude("not constructible (excluded maximum)");
                    return Ok(());
                }
            };
            (d.to_string(), (f.y as i64, f.mo as u32, f.d as u32, f.h as u32, f.mi as u32, f.s as u32, f.ns), 0)
        }
        Some(off) => {
            let ltt = match c.flavour % 4 {
                0 => LocalTimeType::with_ut_offset(off),
                1 => LocalTimeType::new(off, false, Some(b"GMT")),
                2 => LocalTimeType::new(off, true, None),
                _ => LocalTimeType::new(off, true, Some(b"BST")),
            }
            ;
            let ltt = match ltt {
                Ok(l) => l,
                // whether the most negative offset is a legal local time type is C13's question; C18 renders it if it can be built
                Err(_) if off == i32::MIN => {
                    st.exclude("offset i32::MIN refused by the local time type constructors (C13)");
                    return Ok(());
                }
                Err(e) => return Err(format!("{e:?}")),
            };
            let d = if c.via_timespec {
                // instant whose local fields are (about) f: unix = civil - off
                let u = f.civil_secs() - off as i128;
                if u < i64::MIN as i128 || u > i64::MAX as i128 {
                    st.exclude("instant outside i64");
                    return Ok(());
                }
                match DateTime::from_timespec_and_local(u as i64, f.ns, ltt) {
                    Ok(d) => d,
                    Err(_) => {
                        st.exclude("from_timespec_and_local refused");
                        return Ok(());
                    }
                }
            } else {
                match DateTime::new(f.y, f.mo, f.d, f.h, f.mi, f.s, f.ns, ltt) {
                    Ok(d) => d,
                    Err(_) => {
                        st.exclude("DateTime::new refused (instant outside range)");
                        return Ok(());
                    }
                }
            };
            (d.to_string(), (d.year() as i64, d.month() as u32, d.month_day() as u32, d.hour() as u32, d.minute() as u32, d.second() as u32, d.nanoseconds()), d.local_time_type().ut_offset() as i64)
        }
    };
    let p = read(&text).map_err(|e| format!("text {text:?} does not have the documented shape: {e}"))?;
    if (p.year, p.mo, p.d, p.h, p.mi, p.s, p.ns) != fields {
        return Err(format!("text {text:?} reads back as {p:?}, value has fields {fields:?}"));
    }
    if p.off != off {
        return Err(format!("text {text:?} reads back offset {} but the value has offset {off}", p.off));
    }
    if p.z != (off == 0) {
        return Err(format!("text {text:?}: 'Z' must be used exactly when the offset is zero (offset {off})"));
    }
    if !p.z {
        if p.has_sec != (off % 60 != 0) {
            return Err(format!("text {text:?}: ':SS' must appear exactly when the offset is not a whole minute"));
        }
        let want_digits = if off.abs() >= 100 * 3600 { (off.abs() / 3600).to_string().len() } else { 2 };
        if p.hour_digits != want_digits {
            return Err(format!("text {text:?}: {} offset hour digits, expected {want_digits}", p.hour_digits));
        }
    }
    let cls = if off == 0 {
        "offset_zero"
    } else if off < 0 && off > -3600 {
        "negative_below_hour"
    } else if off % 60 != 0 {
        "seconds_bearing"
    } else if off.abs() >= 100 * 3600 {
        "three_plus_hour_digits"
    } else {
        "plain_offset"
    };
    st.class(cls);
    let year = fields.0;
    if (off < 0 && off > -3600) || off % 60 != 0 || year < 0 || year > 9999 || year.abs() < 1000 {
        st.nontrivial(&(c.f, c.off, c.via_timespec, c.flavour));
    }
    if st.wants_sample(cls) {
        st.sample(cls, || json!({"case": c, "text": text}));
    }
    Ok(())
}

pub fn replay(_kind: &str, case: &Value) -> Result<(), String> {
    check_fmt(&serde_json::from_value(case.clone()).map_err(|e| e.to_string())?, &mut Stats::new())
}

pub fn run(ctx: &Ctx) -> Outcome {
    let mut out = Outcome::new(
        "Date-times over all year classes (full i32, negative, 1-3 digit, extremes) x second 0..60 x ns; UtcDateTime and DateTime (from fields and from the instant) x offsets {0, +-k*900, (-3600,3600), full i32, +-1, +-59, +-60, +-3599, i32 extremes}. \
         Plus an enumeration of every offset in -7200..=7200, every whole hour up to +-130 h with seven remainders, and 2000 offsets around +-100 h and the i32 extremes. Oracle: an independent strict reader of the documented text shape. \
         Non-trivial: negative offset above -1 h, seconds-bearing offset, year negative, above 9999 or below 1000 in magnitude.",
    );
    out.assumptions = vec!["the strict reader encodes the shape stated in the property: unpadded decimal year, fixed-width fields, Z iff offset 0, at least two hour digits, :SS iff offset not a whole minute".into()];
    // enumeration over offsets
    let rs = par_shards(4, |shard, st| {
        let f0 = [gens::Fields { y: 2024, mo: 2, d: 29, h: 0, mi: 0, s: 0, ns: 0 }, gens::Fields { y: -1, mo: 12, d: 31, h: 23, mi: 59, s: 60, ns: 999_999_999 }, gens::Fields { y: 7, mo: 1, d: 1, h: 9, mi: 5, s: 3, ns: 1 }, gens::Fields { y: 123456, mo: 10, d: 10, h: 10, mi: 10, s: 10, ns: 10 }][shard as usize];
        let mut offs: Vec<i32> = (-7200..=7200).collect();
        for b in [100 * 3600i64, -100 * 3600, 1000 * 3600, -1000 * 3600, i32::MAX as i64 - 500, i32::MIN as i64 + 501, 359999, -359999] {
            for d in -500..=500i64 {
                offs.push((b + d).clamp(i32::MIN as i64 + 1, i32::MAX as i64) as i32);
            }
        }
        // every whole offset hour up to 130 h with a few remainders, both signs (two-digit hours are rendered by one path, longer ones by another)
        for h in 0..=130i32 {
            for r in [0i32, 1, 59, 60, 1800, 2700, 3599] {
                offs.push(h * 3600 + r);
                offs.push(-(h * 3600 + r));
            }
        }
        for off in offs {
            for via in [false, true] {
                let c = FmtCase { f: f0, off: Some(off), via_timespec: via, flavour: (off.unsigned_abs() % 4) as u8 };
                check_enum("fmt", &c, st, check_fmt)?;
            }
        }
        Ok(())
    });
    out.absorb_all(rs);
    if out.failure.is_some() {
        return out;
    }
    // extreme date-times x a spread of offsets (incl. the last representable day at 23:59:60)
    let rs = par_shards(1, |_, st| {
        let mut fs = vec![];
        for y in [i32::MAX, i32::MAX - 1, i32::MIN, i32::MIN + 1, 0, -1, 9999, 10000, -9999] {
            for (mo, d) in [(12u8, 31u8), (1, 1), (2, 28)] {
                for (h, mi, s) in [(23u8, 59u8, 60u8), (23, 59, 59), (0, 0, 0)] {
                    fs.push(gens::Fields { y, mo, d, h, mi, s, ns: 999_999_999 });
                }
            }
        }
        for f in fs {
            for off in [None, Some(0), Some(1), Some(-1), Some(59), Some(-59), Some(3600), Some(-3600), Some(86_399), Some(-86_399), Some(i32::MAX), Some(i32::MIN + 1), Some(i32::MIN), Some(36_000_001), Some(-36_000_001), Some(359_999_999), Some(-359_999_999)] {
                for via in [false, true] {
                    for flavour in 0..4u8 {
                        check_enum("fmt", &FmtCase { f, off, via_timespec: via, flavour }, st, check_fmt)?;
                    }
                }
            }
        }
        Ok(())
    });
    out.absorb_all(rs);
    if out.failure.is_some() {
        return out;
    }
    let cases = ctx.tier.pick(240_000u32, 5_000_000u32);
    let strat = (gens::arb_valid_fields(), prop_oneof![1 => Just(None), 5 => arb_offset().prop_map(Some)], any::<bool>(), 0u8..4).prop_map(|(f, off, via_timespec, flavour)| FmtCase { f, off, via_timespec, flavour });
    let rs = par_shards(16, |shard, st| pt_shard(ctx, "fmt", shard, cases, &strat, st, check_fmt));
    out.absorb_all(rs);
    out
}
