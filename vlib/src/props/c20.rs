//! C20 — TZ value resolution follows tzset(3): file first, directory order, colon prefix.
//! Model-based: generated TZ values x virtual file systems x directory lists, through the injectable read function (recording).
use crate::model::{MLtt, MTrailer, MZone};
use crate::run::*;
use crate::tzif::{self};
use crate::tzstr::{self, TzEval};
use proptest::prelude::*;
use serde::{Deserialize, Serialize};
use serde_json::{json, Value};
use std::cell::RefCell;
use std::collections::BTreeMap;
use tz::timezone::{TimeZone, TimeZoneSettings};
use tz::{Error, TzError};

#[derive(Debug, Clone, Serialize, Deserialize, Hash, PartialEq, Eq)]
pub enum Content {
    /// a valid TZif file of the fixed zone with this offset (distinct offsets identify which file was chosen)
    Zone(i32),
    Garbage,
    Empty,
    /// the file exists but cannot be read: the read function fails with a typed io::Error (PermissionDenied)
    Denied,
}

#[derive(Debug, Clone, Serialize, Deserialize, Hash)]
pub struct ResCase {
    pub tz: String,
    pub dirs: Vec<String>,
    pub vfs: BTreeMap<String, Content>,
}

thread_local! {
    static VFS: RefCell<BTreeMap<String, Vec<u8>>> = const { RefCell::new(BTreeMap::new()) };
    static DENIED: RefCell<std::collections::BTreeSet<String>> = const { RefCell::new(std::collections::BTreeSet::new()) };
    static LOG: RefCell<Vec<String>> = const { RefCell::new(Vec::new()) };
}

fn vfs_read(path: &str) -> Result<Vec<u8>, Box<dyn std::error::Error + Send + Sync + 'static>> {
    LOG.with(|l| l.borrow_mut().push(path.to_string()));
    if DENIED.with(|d| d.borrow().contains(path)) {
        return Err(Box::new(std::io::Error::new(std::io::ErrorKind::PermissionDenied, "permission denied")));
    }
    VFS.with(|v| v.borrow().get(path).cloned().ok_or_else(|| "not found in the virtual file system".into()))
}

fn zone_file(off: i32) -> Vec<u8> {
    let b = tzif::Block { times: vec![], type_idx: vec![], ttinfos: vec![(off, 0, 0)], chars: b"VFS\0".to_vec(), leaps: vec![], isstd: vec![], isut: vec![] };
    tzif::write(&tzif::FileModel { version: 2, v1: b.clone(), v2: Some(b), footer: vec![] })
}

pub fn bytes_of(c: &Content) -> Vec<u8> {
    match c {
        Content::Zone(off) => zone_file(*off),
        Content::Garbage => b"this is not a TZif file".to_vec(),
        Content::Empty | Content::Denied => vec![],
    }
}

#[derive(Debug, PartialEq)]
enum Outcome_ {
    ZoneFile(i32),
    RuleZone(TzEval),
    EmptyErr,
    IoErr,
    FileDecodeErr,
    StringErr,
}

/// Reference resolver written from the property text / tzset(3). Returns (paths opened in order, outcome).
fn reference(c: &ResCase) -> (Vec<String>, Outcome_) {
    let mut log = vec![];
    let file_outcome = |content: &Content| match content {
        Content::Zone(o) => Outcome_::ZoneFile(*o),
        _ => Outcome_::FileDecodeErr,
    };
    if c.tz.is_empty() {
        return (log, Outcome_::EmptyErr);
    }
    if c.tz == "localtime" {
        log.push("/etc/localtime".to_string());
        return match c.vfs.get("/etc/localtime") {
            Some(Content::Denied) | None => (log, Outcome_::IoErr),
            Some(x) => (log, file_outcome(x)),
        };
    }
    // file lookup: absolute path as is; relative under each directory in order, first readable wins
    let mut lookup = |name: &str, log: &mut Vec<String>| -> Option<Content> {
        if name.starts_with('/') {
            log.push(name.to_string());
            c.vfs.get(name).filter(|x| !matches!(x, Content::Denied)).cloned()
        } else {
            for d in &c.dirs {
                let p = format!("{d}/{name}");
                log.push(p.clone());
                // an unreadable file does not win: the next directory is tried
                if let Some(x) = c.vfs.get(&p).filter(|x| !matches!(x, Content::Denied)) {
                    return Some(x.clone());
                }
            }
            None
        }
    };
    if let Some(rest) = c.tz.strip_prefix(':') {
        return match lookup(rest, &mut log) {
            Some(x) => (log, file_outcome(&x)),
            None => (log, Outcome_::IoErr),
        };
    }
    match lookup(&c.tz, &mut log) {
        Some(x) => (log, file_outcome(&x)),
        None => {
            let t = tzstr::trim_ascii_ws(c.tz.as_bytes());
            match tzstr::parse(t, false) {
                Ok(v) => {
                    if let TzEval::Alt(r) = &v {
                        if crate::orule::classify(r) == crate::orule::Class::Unstable {
                            return (log, Outcome_::StringErr);
                        }
                    }
                    (log, Outcome_::RuleZone(v))
                }
                Err(_) => (log, Outcome_::StringErr),
            }
        }
    }
}

/// Installs the case's virtual file system (thread-local harness state read by `vfs_read`).
fn install_vfs(c: &ResCase) {
    VFS.with(|v| {
        let mut m = v.borrow_mut();
        m.clear();
        for (p, content) in &c.vfs {
            if !matches!(content, Content::Denied) {
                m.insert(p.clone(), bytes_of(content));
            }
        }
    });
    DENIED.with(|d| {
        let mut d = d.borrow_mut();
        d.clear();
        for (p, content) in &c.vfs {
            if matches!(content, Content::Denied) {
                d.insert(p.clone());
            }
        }
    });
}

pub fn check_res(c: &ResCase, st: &mut Stats) -> Result<(), String> {
    install_vfs(c);
    let dirs: Vec<&str> = c.dirs.iter().map(|s| s.as_str()).collect();
    let settings = TimeZoneSettings::new(&dirs, vfs_read);
    judge(c, &settings, st)
}

/// A history: ONE settings value resolves several TZ values in sequence over one file system. Every step must be exactly what
/// the reference resolver says for that value alone (the resolution is a function of the value, the directory list and the files,
/// never of earlier resolutions through the same settings).
#[derive(Debug, Clone, Serialize, Deserialize, Hash)]
pub struct HistCase {
    pub tzs: Vec<String>,
    pub dirs: Vec<String>,
    pub vfs: BTreeMap<String, Content>,
}

pub fn check_hist(h: &HistCase, st: &mut Stats) -> Result<(), String> {
    let base = ResCase { tz: String::new(), dirs: h.dirs.clone(), vfs: h.vfs.clone() };
    install_vfs(&base);
    let dirs: Vec<&str> = h.dirs.iter().map(|s| s.as_str()).collect();
    let settings = TimeZoneSettings::new(&dirs, vfs_read);
    let mut served: Vec<usize> = vec![];
    for (k, tz) in h.tzs.iter().enumerate() {
        let c = ResCase { tz: tz.clone(), ..base.clone() };
        judge(&c, &settings, st).map_err(|m| format!("step {k} of the history {:?} through one settings value: {m}", h.tzs))?;
        // which directory served this step (for the generator statistics)
        let (exp_log, exp) = reference(&c);
        if matches!(exp, Outcome_::ZoneFile(_)) && !tz.trim_start_matches(':').starts_with('/') {
            served.push(exp_log.len());
        }
    }
    if served.windows(2).any(|w| w[0] > 1 && w[1] < w[0]) {
        st.class("history_later_directory_then_earlier_directory");
        st.nontrivial(h);
    }
    st.class("history");
    Ok(())
}

fn judge(c: &ResCase, settings: &TimeZoneSettings<'_>, st: &mut Stats) -> Result<(), String> {
    st.eval(1);
    LOG.with(|l| l.borrow_mut().clear());
    let got = settings.parse_posix_tz(&c.tz);
    let log: Vec<String> = LOG.with(|l| l.borrow().clone());
    let (exp_log, exp) = reference(c);
    if log != exp_log {
        return Err(format!("TZ={:?} dirs={:?} vfs={:?}: opened {log:?}, tzset(3) semantics open {exp_log:?}", c.tz, c.dirs, c.vfs.keys().collect::<Vec<_>>()));
    }
    let describe = |g: &Result<TimeZone, Error>| match g {
        Ok(z) => format!("Ok({z:?})"),
        Err(e) => format!("Err({e:?})"),
    };
    let ok = match (&exp, &got) {
        (Outcome_::ZoneFile(off), Ok(z)) => *z == TimeZone::from_tz_data(&zone_file(*off)).unwrap(),
        (Outcome_::RuleZone(v), Ok(z)) => {
            let mz = match v {
                TzEval::Fixed(l) => MZone { trans: vec![], types: vec![l.clone()], leaps: vec![], trailer: MTrailer::Fixed(l.clone()) },
                TzEval::Alt(r) => MZone { trans: vec![], types: vec![r.std.clone(), r.dst.clone()], leaps: vec![], trailer: MTrailer::Alt(r.clone()) },
            };
            mz.to_tz().map(|w| w == *z).unwrap_or(false)
        }
        (Outcome_::EmptyErr, Err(Error::Tz(TzError::TzString(tz::error::parse::TzStringError::Empty)))) => true,
        (Outcome_::IoErr, Err(Error::Io(_))) => true,
        (Outcome_::FileDecodeErr, Err(Error::Tz(TzError::TzFile(_)))) => true,
        (Outcome_::StringErr, Err(Error::Tz(TzError::TzString(_) | TzError::LocalTimeType(_) | TzError::TransitionRule(_)))) => true,
        _ => false,
    };
    if !ok {
        return Err(format!("TZ={:?} dirs={:?} vfs={:?}: expected {exp:?}, got {}", c.tz, c.dirs, c.vfs, describe(&got)));
    }
    // parse_local == "localtime"
    let candidates = exp_log.len();
    let existing = exp_log.iter().filter(|p| c.vfs.contains_key(*p)).count();
    let both_viable = tzstr::parse(tzstr::trim_ascii_ws(c.tz.as_bytes()), false).is_ok() && c.vfs.keys().any(|k| k.ends_with(&format!("/{}", c.tz)));
    let shadow = c.vfs.values().any(|v| !matches!(v, Content::Zone(_)));
    if c.vfs.values().any(|v| matches!(v, Content::Denied)) && existing > 0 {
        st.class("unreadable_file_on_a_candidate_path");
    }
    if candidates >= 2 || both_viable || (shadow && existing > 0) || c.tz.starts_with(':') || c.tz != c.tz.trim() {
        st.nontrivial(c);
    }
    st.class(match exp {
        Outcome_::ZoneFile(_) => "file_chosen",
        Outcome_::RuleZone(_) => "decoded_as_description",
        Outcome_::EmptyErr => "empty_refused",
        Outcome_::IoErr => "io_error",
        Outcome_::FileDecodeErr => "malformed_file_no_fallback",
        Outcome_::StringErr => "description_refused",
    });
    if both_viable {
        st.class("file_and_description_both_viable");
    }
    if st.wants_sample("case") {
        st.sample("case", || json!({"tz": c.tz, "dirs": c.dirs, "vfs": c.vfs, "opened": log, "outcome": format!("{exp:?}")}));
    }
    Ok(())
}

fn check_local(c: &ResCase, st: &mut Stats) -> Result<(), String> {
    // parse_local() is the resolution of "localtime"
    st.eval(1);
    VFS.with(|v| {
        let mut m = v.borrow_mut();
        m.clear();
        for (p, content) in &c.vfs {
            if !matches!(content, Content::Denied) {
                m.insert(p.clone(), bytes_of(content));
            }
        }
    });
    DENIED.with(|d| {
        let mut d = d.borrow_mut();
        d.clear();
        for (p, content) in &c.vfs {
            if matches!(content, Content::Denied) {
                d.insert(p.clone());
            }
        }
    });
    LOG.with(|l| l.borrow_mut().clear());
    let dirs: Vec<&str> = c.dirs.iter().map(|s| s.as_str()).collect();
    let settings = TimeZoneSettings::new(&dirs, vfs_read);
    let got = settings.parse_local();
    let log: Vec<String> = LOG.with(|l| l.borrow().clone());
    if log != vec!["/etc/localtime".to_string()] {
        return Err(format!("parse_local() opened {log:?}, expected exactly /etc/localtime"));
    }
    match (c.vfs.get("/etc/localtime"), &got) {
        (Some(Content::Zone(off)), Ok(z)) if *z == TimeZone::from_tz_data(&zone_file(*off)).unwrap() => Ok(()),
        (Some(Content::Garbage | Content::Empty), Err(Error::Tz(TzError::TzFile(_)))) => Ok(()),
        (None | Some(Content::Denied), Err(Error::Io(_))) => Ok(()),
        (e, g) => Err(format!("parse_local(): /etc/localtime = {e:?}, got {:?}", g.as_ref().map(|_| "Ok").map_err(|e| format!("{e:?}")))),
    }
}

pub fn replay(kind: &str, case: &Value) -> Result<(), String> {
    if kind == "hist" {
        let h: HistCase = serde_json::from_value(case.clone()).map_err(|e| e.to_string())?;
        return check_hist(&h, &mut Stats::new());
    }
    let c: ResCase = serde_json::from_value(case.clone()).map_err(|e| e.to_string())?;
    if kind == "res-alloc-only" {
        use crate::props::c19;
        check_res(&c, &mut Stats::new())?;
        let bin = c19::build_probe("alloc", &["--features", "alloc"]).map_err(|log| format!("alloc-only probe does not build: {log}"))?;
        let p = c19::resolution_only_case(&c);
        let corpus = crate::run::verif_dir().join(format!("build/c20-corpus-{}.json", std::process::id()));
        std::fs::write(&corpus, serde_json::to_string(&vec![p.clone()]).unwrap()).map_err(|e| e.to_string())?;
        let lines = c19::run_probe(&bin, &corpus);
        let _ = std::fs::remove_file(&corpus);
        let lines = lines?;
        let here = c19::transcript_alloc::transcript_alloc(&p);
        let there = lines.first().and_then(|l| l.split("\t#A").nth(1)).unwrap_or("").to_string();
        return if here == there { Ok(()) } else { Err(format!("alloc-only build prints {there}, std build prints {here}")) };
    }
    if kind == "local" {
        check_local(&c, &mut Stats::new())
    } else {
        check_res(&c, &mut Stats::new())
    }
}

const NAMES: [&str; 18] = ["EST5EDT,M3.2.0/-0:30,M11.1.0", "EST5EDT,M3.2.0/+2,M11.1.0", "EST5EDT,M3.2.0/25,M11.1.0", "Zone/../Zone/A", "UTC0", "EST5EDT,M3.2.0,M11.1.0", "Europe/Paris", "EST5", "localtime", "AAA0BBB", "posix/UTC", "x", "UTC", "<+03>-3", "Etc/GMT+5", "..//a", "AAA0BBB,J1,J2", "é"];

/// Histories: 2..4 distinct directories, 2..6 relative / absolute / description values, files placed under several of the
/// directories for the same names (different contents), so that which directory serves a name differs from step to step.
pub fn arb_hist() -> SBoxedStrategy<HistCase> {
    let name = proptest::sample::select(vec!["Europe/Paris", "UTC", "x", "posix/UTC", "Etc/GMT+5", "EST5", "UTC0", "<+03>-3", "Zone/../Zone/A", "EST5EDT,M3.2.0,M11.1.0"]);
    let tz = (prop_oneof![6 => Just(""), 2 => Just(":"), 1 => Just("/abs/"), 1 => Just(" ")], name).prop_map(|(pre, n)| format!("{pre}{n}"));
    let dirs = proptest::sample::subsequence(vec!["/d1", "/d2", "/usr/share/zoneinfo", "/etc/zoneinfo", "/d1/"], 2..5).prop_shuffle().prop_map(|v| v.into_iter().map(|s| s.to_string()).collect::<Vec<String>>());
    let content = prop_oneof![6 => (1i32..1000).prop_map(|k| Content::Zone(k * 60)), 1 => Just(Content::Garbage), 1 => Just(Content::Denied)];
    (proptest::collection::vec(tz, 2..7), dirs, proptest::collection::vec((any::<u32>(), any::<u32>(), content), 1..10))
        .prop_map(|(tzs, dirs, files)| {
            let mut vfs = BTreeMap::new();
            for (a, b, content) in files {
                let t = &tzs[idx(a, tzs.len())];
                let n = t.trim().trim_start_matches(':').to_string();
                let p = if n.starts_with('/') { n } else { format!("{}/{n}", dirs[idx(b, dirs.len())]) };
                vfs.insert(p, content);
            }
            HistCase { tzs, dirs, vfs }
        })
        .sboxed()
}

pub fn arb_case() -> SBoxedStrategy<ResCase> {
    let name = proptest::sample::select(NAMES.to_vec());
    // ASCII white space (weighted up), then characters that only Unicode calls white space: those are part of the value, never trimmed
    let pad = proptest::sample::select(vec!["", "", " ", " ", "\t", "\n", "  ", "\x0c", "\r", "\u{b}", "\u{a0}", "\u{2003}", "\u{85}", "\u{3000}"]);
    let tz = prop_oneof![
        1 => Just(String::new()),
        1 => Just("localtime".to_string()),
        6 => (pad.clone(), prop_oneof![6 => Just(""), 2 => Just(":"), 2 => Just("/"), 2 => Just(":/"), 2 => Just("/abs/"), 1 => Just("::"), 1 => Just(":::"), 1 => Just("::/")], name.clone(), pad.clone()).prop_map(|(a, pre, n, b)| format!("{a}{pre}{n}{b}")),
        1 => (pad.clone(), pad.clone()).prop_map(|(a, b)| format!("{a}{b}")),
        1 => (name.clone(), pad).prop_map(|(n, p)| format!("{p}:{n}")),
    ];
    let dirs_any = proptest::collection::vec(proptest::sample::select(vec!["/usr/share/zoneinfo", "/share/zoneinfo", "/etc/zoneinfo", "/d1", "/d2", "", "rel", "/", "/d1/", "//", "/usr/share/zoneinfo/"]), 0..4).prop_map(|v| v.into_iter().map(|s| s.to_string()).collect::<Vec<String>>());
    // one list in eight is exactly the crate's default directory list
    let dirs = prop_oneof![7 => dirs_any, 1 => Just(TimeZoneSettings::DEFAULT_DIRECTORIES.iter().map(|s| s.to_string()).collect::<Vec<String>>())];
    let content = prop_oneof![4 => (1i32..1000).prop_map(|k| Content::Zone(k * 60)), 2 => Just(Content::Garbage), 1 => Just(Content::Empty), 2 => Just(Content::Denied)];
    (tz, dirs, proptest::collection::vec((any::<u32>(), content, 0u8..6), 0..6))
        .prop_map(|(tz, dirs, files)| {
            // populate preferentially on the candidate paths of this TZ value
            let mut cands: Vec<String> = vec!["/etc/localtime".into()];
            let stripped = tz.strip_prefix(':').unwrap_or(&tz).to_string();
            let trimmed = tz.trim().to_string();
            for n in [stripped.clone(), trimmed.clone(), trimmed.strip_prefix(':').unwrap_or(&trimmed).to_string(), tz.clone()] {
                if n.starts_with('/') {
                    cands.push(n.clone());
                }
                for d in &dirs {
                    cands.push(format!("{d}/{n}"));
                    // where a resolver that "normalises" the directory would look instead (never to be opened)
                    if d.ends_with('/') {
                        cands.push(format!("{}/{n}", d.trim_end_matches('/')));
                    }
                }
                cands.push(n);
            }
            cands.push("/unrelated/file".into());
            // where a resolver honouring a TZDIR-like override would look (the probes of C19 run with TZDIR=/tzdir-probe)
            cands.push(format!("/tzdir-probe/{}", stripped.trim_start_matches('/')));
            let mut vfs = BTreeMap::new();
            for (sel, content, _) in files {
                let p = cands[idx(sel, cands.len())].clone();
                vfs.insert(p, content);
            }
            ResCase { tz, dirs, vfs }
        })
        .sboxed()
}

pub fn run(ctx: &Ctx) -> Outcome {
    let mut out = Outcome::new(
        "TZ values {empty, 'localtime', names, TZ descriptions that are also plausible file names ('UTC0', 'EST5EDT,M3.2.0,M11.1.0'), ':'-prefixed, absolute, relative, padded with ASCII or Unicode-only whitespace on either side, ':' after padding, non-sentences, non-ASCII} x directory lists of 0..3 entries (incl. empty and relative directories, the root, directories with a trailing slash) \
         x virtual file systems populated preferentially on the candidate paths (valid TZif files of distinct zones, garbage, empty files), driven through the injectable read function, which records every requested path. Oracle: a reference resolver written from the property text / tzset(3): exact sequence of opened paths + outcome class + decoded zone. \
         Histories: one settings value resolves 2..6 values in sequence over one file system in which the same names exist under several directories; every step must equal the reference's answer for that value alone. Non-trivial: at least two candidate paths, or file and description both viable, or a malformed file present on a candidate path, or a ':' value, or a padded value; for histories: a name served by a later directory followed by one served by an earlier directory.",
    );
    out.assumptions = vec![
        "the read function is a plain fn reading a thread-local virtual file system of the harness (no real file system involved)".into(),
        "the property is checked in both configurations in which TimeZoneSettings exists: default features (in-process) and `alloc` without `std` (through C19's probe binary, 4 000 cases quick / 60 000 thorough)".into(),
    ];
    let cases = ctx.tier.pick(200_000u32, 3_000_000u32);
    let strat = arb_case();
    let rs = par_shards(16, |shard, st| pt_shard(ctx, "res", shard, cases, &strat, st, check_res));
    out.absorb_all(rs);
    if out.failure.is_some() {
        return out;
    }
    // histories through one settings value (a resolver that remembers where it last found something is wrong from the second step on)
    let hstrat = arb_hist();
    let rs = par_shards(8, |shard, st| pt_shard(ctx, "hist", 200 + shard, cases / 10, &hstrat, st, check_hist));
    out.absorb_all(rs);
    if out.failure.is_some() {
        return out;
    }
    let rs = par_shards(4, |shard, st| pt_shard(ctx, "local", 100 + shard, cases / 10, &strat, st, check_local));
    out.absorb_all(rs);
    if out.failure.is_some() {
        return out;
    }
    // the same resolution in the other configuration in which settings exist: tz-rs built with `alloc` only (no `std`). A probe binary
    // (cfgprobe, C19's) runs the cases there; each must first pass the reference comparison above, then print what the std build prints
    // (paths opened, in order, and the result).
    if std::env::var("VERIF_C20_SKIP_ALLOC_ONLY").is_err() {
        use crate::props::c19;
        let n = ctx.tier.pick(4_000usize, 60_000usize);
        let mut dr = Drawer::new(ctx, "alloc-only", 0);
        let mut st = Stats::new();
        let cases: Vec<ResCase> = (0..n).map(|_| dr.draw(&strat)).collect();
        let res = (|| -> Result<(), Failure> {
            for c in &cases {
                check_res(c, &mut st).map_err(|m| Failure::new("res", m, c))?;
            }
            let bin = c19::build_probe("alloc", &["--features", "alloc"]).map_err(|log| Failure::new("infra", format!("the alloc-only probe does not build (see {log}); C19 decides whether that is a violation"), json!(null)))?;
            let pcases: Vec<c19::transcript::PCase> = cases.iter().map(c19::resolution_only_case).collect();
            let corpus = crate::run::verif_dir().join(format!("build/c20-corpus-{}.json", std::process::id()));
            std::fs::write(&corpus, serde_json::to_string(&pcases).unwrap()).map_err(|e| Failure::new("infra", e.to_string(), json!(null)))?;
            let lines = c19::run_probe(&bin, &corpus).map_err(|e| Failure::new("infra", e, json!(null)));
            let _ = std::fs::remove_file(&corpus);
            let lines = lines?;
            if lines.len() != cases.len() {
                return Err(Failure::new("infra", format!("alloc-only probe printed {} lines for {} cases", lines.len(), cases.len()), json!(null)));
            }
            for ((c, p), line) in cases.iter().zip(&pcases).zip(&lines) {
                st.eval(1);
                let here = c19::transcript_alloc::transcript_alloc(p);
                let there = line.split("\t#A").nth(1).unwrap_or("");
                if here != there {
                    return Err(Failure::new("res-alloc-only", format!("TZ={:?} dirs={:?} vfs={:?}: tz-rs built with `alloc` only (no `std`) resolves it differently:\n  alloc-only: {}\n  std (agrees with the reference resolver): {}", c.tz, c.dirs, c.vfs.keys().collect::<Vec<_>>(), there.chars().take(300).collect::<String>(), here.chars().take(300).collect::<String>()), c));
                }
                st.class("resolved_identically_in_alloc_only_build");
            }
            Ok(())
        })();
        out.stats.merge(st);
        if let Err(f) = res {
            out.failure = Some(f);
        }
    }
    let _ = MLtt::new;
    out
}
