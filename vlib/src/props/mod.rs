//! One module per property. Each exposes `run(&Ctx) -> Outcome` and `replay(kind, case) -> Result<(), String>`.
use crate::run::{Ctx, Outcome};
use serde_json::Value;

pub mod c01;
pub mod c02;
pub mod c03;
pub mod c04;
pub mod c05;
pub mod c06;
pub mod c07;
pub mod c08;
pub mod c09;
pub mod c10;
pub mod c11;
pub mod c12;
pub mod c13;
pub mod c14;
pub mod c15;
pub mod c16;
pub mod c17;
pub mod c18;
pub mod c19;
pub mod c20;

pub const ALL: &[&str] = &["C01", "C02", "C03", "C04", "C05", "C06", "C07", "C08", "C09", "C10", "C11", "C12", "C13", "C14", "C15", "C16", "C17", "C18", "C19", "C20"];

pub fn run(ctx: &Ctx) -> Option<Outcome> {
    Some(match ctx.id.as_str() {
        "C01" => c01::run(ctx),
        "C02" => c02::run(ctx),
        "C03" => c03::run(ctx),
        "C04" => c04::run(ctx),
        "C05" => c05::run(ctx),
        "C06" => c06::run(ctx),
        "C17" => c17::run(ctx),
        "C07" => c07::run(ctx),
        "C08" => c08::run(ctx),
        "C09" => c09::run(ctx),
        "C10" => c10::run(ctx),
        "C11" => c11::run(ctx),
        "C12" => c12::run(ctx),
        "C13" => c13::run(ctx),
        "C14" => c14::run(ctx),
        "C15" => c15::run(ctx),
        "C16" => c16::run(ctx),
        "C18" => c18::run(ctx),
        "C19" => c19::run(ctx),
        "C20" => c20::run(ctx),
        _ => return None,
    })
}

/// Re-execute one saved case, bypassing generation. Ok(()) = the case passes now.
pub fn replay(id: &str, kind: &str, case: &Value) -> Option<Result<(), String>> {
    Some(match id {
        "C01" => c01::replay(kind, case),
        "C02" => c02::replay(kind, case),
        "C03" => c03::replay(kind, case),
        "C04" => c04::replay(kind, case),
        "C05" => c05::replay(kind, case),
        "C06" => c06::replay(kind, case),
        "C17" => c17::replay(kind, case),
        "C07" => c07::replay(kind, case),
        "C08" => c08::replay(kind, case),
        "C09" => c09::replay(kind, case),
        "C10" => c10::replay(kind, case),
        "C11" => c11::replay(kind, case),
        "C12" => c12::replay(kind, case),
        "C13" => c13::replay(kind, case),
        "C14" => c14::replay(kind, case),
        "C15" => c15::replay(kind, case),
        "C16" => c16::replay(kind, case),
        "C18" => c18::replay(kind, case),
        "C19" => c19::replay(kind, case),
        "C20" => c20::replay(kind, case),
        _ => return None,
    })
}
