//! C08 — TZif decoding is faithful: a well-formed v1/v2/v3 file yields exactly its zone.
use crate::gens::{self, ZoneCfg};
use crate::model::{MLtt, MRule, MTrailer, MZone};
use crate::orule::{self, Class};
use crate::run::*;
use crate::tzif::{self, Block, FileModel};
use crate::tzstr::{self, HmsSpell, TzEval};
use proptest::prelude::*;
use serde::{Deserialize, Serialize};
use serde_json::{json, Value};
use tz::timezone::{LeapSecond, TimeZone, Transition, TransitionRule};

#[derive(Debug, Clone, Serialize, Deserialize, Hash)]
pub struct FileCase {
    pub zone: MZone,
    pub version: u8,
    /// entropy for layout choices (designation table order / sharing, decoy block, indicator vectors, footer spelling)
    pub ent: Vec<u32>,
    pub defect: Defect,
}

#[derive(Debug, Clone, Serialize, Deserialize, Hash)]
pub enum Defect {
    None,
    Magic { pos: u8 },
    Version { byte: u8, second: bool },
    /// overwrite header count `field` (0 isut,1 isstd,2 leap,3 time,4 type,5 char) of the chosen header with `value`
    Count { second: bool, field: u8, value: u32 },
    Truncate { at: u32 },
    Trailing { n: u8 },
    IsDst { k: u32, value: u8 },
    DesigIdx { k: u32 },
    NoNul,
    Indicator { k: u32, std: u8, ut: u8 },
    FooterNoNewline { end: bool },
    FooterNul,
    FooterColon,
    FooterGarbage { text: Vec<u8> },
    /// v2+: the 32-bit block's header carries inconsistent counts while its body is sized accordingly (0 isut, 1 isstd, 2 typecnt 0, 3 charcnt 0)
    DecoyInconsistent { kind: u8 },
    /// arbitrary byte overwrite
    Byte { at: u32, value: u8 },
}

fn e(ent: &[u32], i: usize) -> u32 {
    if ent.is_empty() {
        0
    } else {
        ent[i % ent.len()].rotate_left((i / ent.len()) as u32 * 7)
    }
}

/// Spell a rule as a TZ description (needs extensions iff a time is negative or beyond 24:59:59).
pub fn spell_trailer(t: &MTrailer, ent: &[u32]) -> Option<(Vec<u8>, bool)> {
    let sp = |k: usize| HmsSpell { plus: e(ent, k) % 2 == 0, fields: (e(ent, k + 1) % 3 + 1) as u8, zh: (e(ent, k + 2) % 3) as u8, zm: (e(ent, k + 3) % 2) as u8, zs: 0 };
    let off = |o: i32, k: usize| {
        let (neg, h, m, s) = tzstr::hms_parts(-o);
        tzstr::spell_hms(neg, h, m, s, &sp(k), true)
    };
    match t {
        MTrailer::None => Some((vec![], false)),
        MTrailer::Fixed(l) => {
            let n = l.name.as_ref()?;
            if l.dst || l.off.abs() > 89_999 {
                return None;
            }
            Some((format!("{}{}", tzstr::spell_name(n, e(ent, 0) % 2 == 0), off(l.off, 1)).into_bytes(), false))
        }
        MTrailer::Alt(r) => {
            if r.std.off.abs() > 89_999 || r.dst.off.abs() > 89_999 {
                return None;
            }
            let mut s = format!("{}{}", tzstr::spell_name(r.std.name.as_ref()?, e(ent, 0) % 2 == 0), off(r.std.off, 1));
            s.push_str(&tzstr::spell_name(r.dst.name.as_ref()?, e(ent, 5) % 2 == 0));
            if !(r.dst.off == r.std.off + 3600 && e(ent, 6) % 2 == 0) {
                s.push_str(&off(r.dst.off, 7));
            }
            let mut need_ext = false;
            for (d, t, k) in [(&r.start, r.start_time, 11usize), (&r.end, r.end_time, 17)] {
                s.push(',');
                s.push_str(&tzstr::spell_day(d, (e(ent, k) % 2) as u8));
                if !(t == 7200 && e(ent, k + 1) % 2 == 0) {
                    s.push('/');
                    let (neg, h, m, sec) = tzstr::hms_parts(t);
                    let ext = neg || h > 24;
                    need_ext |= ext;
                    s.push_str(&tzstr::spell_hms(neg, h, m, sec, &sp(k + 2), ext));
                }
            }
            Some((s.into_bytes(), need_ext))
        }
    }
}

/// Build the designation table for the types with random order, sharing of equal names and suffix sharing.
fn build_chars(types: &[MLtt], ent: &[u32]) -> Option<(Vec<u8>, Vec<u8>)> {
    let mut chars: Vec<u8> = vec![];
    if e(ent, 30) % 3 == 0 {
        chars.extend_from_slice(b"ZZDECOY\0");
    }
    let mut idx = vec![0u8; types.len()];
    // place in a shuffled order
    let mut order: Vec<usize> = (0..types.len()).collect();
    for i in (1..order.len()).rev() {
        let j = (e(ent, 31 + i) as usize) % (i + 1);
        order.swap(i, j);
    }
    // one table in five is padded so that the last placed designation starts at an index in 249..=255 (the largest a one-octet index
    // can hold) and runs past offset 256
    let pad_to: Option<usize> = if e(ent, 32) % 5 == 0 { Some(249 + (e(ent, 33) % 7) as usize) } else { None };
    for (pos, &k) in order.iter().enumerate() {
        if let (Some(p), true) = (pad_to, pos + 1 == order.len()) {
            if chars.len() < p {
                while chars.len() + 1 < p {
                    chars.push(b'q');
                }
                chars.push(0);
            }
        }
        let name: &[u8] = types[k].name.as_deref().unwrap_or("").as_bytes();
        // reuse: find an existing occurrence of name+NUL (also as a suffix of a longer string)
        let mut needle = name.to_vec();
        needle.push(0);
        let found = if e(ent, 40 + k) % 4 != 0 { chars.windows(needle.len()).position(|w| w == needle.as_slice()) } else { None };
        let at = match found {
            Some(p) => p,
            None => {
                let p = chars.len();
                chars.extend_from_slice(&needle);
                p
            }
        };
        if at > 255 {
            return None;
        }
        idx[k] = at as u8;
    }
    if chars.is_empty() {
        chars.push(0);
    }
    Some((chars, idx))
}

fn build_block(z: &MZone, ent: &[u32], salt: usize) -> Option<Block> {
    let (chars, idx) = build_chars(&z.types, &ent[salt % ent.len().max(1)..])?;
    let n = z.types.len();
    let mode = e(ent, 50 + salt) % 4;
    let pair = |k: usize| match e(ent, 60 + k + salt) % 3 {
        0 => (0u8, 0u8),
        1 => (1, 0),
        _ => (1, 1),
    };
    let isstd: Vec<u8> = if mode & 1 == 1 { (0..n).map(|k| if mode & 2 == 2 { pair(k).0 } else { (e(ent, 70 + k) % 2) as u8 }).collect() } else { vec![] };
    let isut: Vec<u8> = if mode & 2 == 2 { (0..n).map(|k| if mode & 1 == 1 { pair(k).1 } else { 0 }).collect() } else { vec![] };
    Some(Block {
        times: z.trans.iter().map(|t| t.0).collect(),
        type_idx: z.trans.iter().map(|t| t.1 as u8).collect(),
        ttinfos: z.types.iter().enumerate().map(|(k, t)| (t.off, t.dst as u8, idx[k])).collect(),
        chars,
        leaps: z.leaps.clone(),
        isstd,
        isut,
    })
}

/// File model of a zone; None when the zone cannot be represented (e.g. v1 with 64-bit times, unspellable trailer).
pub fn file_of(c: &FileCase) -> Option<FileModel> {
    let z = &c.zone;
    if z.types.is_empty() || z.types.len() > 256 {
        return None;
    }
    let ent = &c.ent;
    if c.version == 1 {
        if !matches!(z.trailer, MTrailer::None) || z.trans.iter().any(|t| t.0 < i32::MIN as i64 || t.0 > i32::MAX as i64) || z.leaps.iter().any(|l| l.0 > i32::MAX as i64) {
            return None;
        }
        return Some(FileModel { version: 1, v1: build_block(z, ent, 0)?, v2: None, footer: vec![] });
    }
    let (footer, need_ext) = spell_trailer(&z.trailer, ent)?;
    if need_ext && c.version != 3 {
        return None;
    }
    // decoy 32-bit block: different counts, times and types
    let decoy = MZone {
        trans: (0..(e(ent, 90) % 4) as usize).map(|k| (1000 + 10 * k as i64, 0)).collect(),
        types: vec![MLtt::new(-12345, true, Some("DECOY")), MLtt::new(777, false, None)][..1 + (e(ent, 91) % 2) as usize].to_vec(),
        leaps: if e(ent, 92) % 2 == 0 { vec![(5, 1)] } else { vec![] },
        trailer: MTrailer::None,
    };
    Some(FileModel { version: c.version, v1: build_block(&decoy, ent, 3)?, v2: Some(build_block(z, ent, 0)?), footer })
}

/// Apply a defect to the written bytes. Returns (bytes, must_reject): must_reject = the property lists this defect as a format violation.
fn corrupt(fm: &FileModel, d: &Defect) -> Option<(Vec<u8>, bool)> {
    let mut b = tzif::write(fm);
    let (second, foot) = tzif::layout(fm);
    let chosen_hdr = if fm.v2.is_some() { second } else { 0 };
    let blk = fm.v2.as_ref().unwrap_or(&fm.v1);
    let wide = fm.v2.is_some();
    let ts = if wide { 8 } else { 4 };
    let off_types = chosen_hdr + 44 + blk.times.len() * ts + blk.times.len();
    let off_chars = off_types + blk.ttinfos.len() * 6;
    let off_leaps = off_chars + blk.chars.len();
    let off_isstd = off_leaps + blk.leaps.len() * (ts + 4);
    let off_isut = off_isstd + blk.isstd.len();
    match d {
        Defect::None => Some((b, false)),
        Defect::Magic { pos } => {
            let p = (*pos % 4) as usize + if fm.v2.is_some() && *pos >= 128 { second } else { 0 };
            b[p] ^= 0x20;
            Some((b, true))
        }
        Defect::Version { byte, second: sec } => {
            if [0u8, b'2', b'3'].contains(byte) {
                return None;
            }
            let p = 4 + if *sec && fm.v2.is_some() { second } else { 0 };
            b[p] = *byte;
            Some((b, true))
        }
        Defect::Count { second: sec, field, value } => {
            let h = if *sec && fm.v2.is_some() { second } else { 0 };
            let which: &Block = if h == 0 { &fm.v1 } else { blk };
            let f = (*field % 6) as usize;
            let typ = which.ttinfos.len() as u32;
            let old = [which.isut.len(), which.isstd.len(), which.leaps.len(), which.times.len(), which.ttinfos.len(), which.chars.len()][f] as u32;
            if *value == old {
                return None;
            }
            // only the inconsistencies the property lists are asserted as must-reject: typecnt 0, charcnt 0, isut/isstd not in {0, typecnt}
            let must = match f {
                4 | 5 => *value == 0,
                0 | 1 => *value != 0 && *value != typ,
                _ => false,
            };
            let p = h + 20 + 4 * f;
            b[p..p + 4].copy_from_slice(&value.to_be_bytes());
            Some((b, must))
        }
        Defect::Truncate { at } => {
            let n = idx(*at, b.len());
            b.truncate(n);
            // a v2+ file cut right after the footer's first newline (or an empty footer minus its last newline) stays well formed: the reader decides
            Some((b, false))
        }
        Defect::Trailing { n } => {
            if fm.v2.is_some() {
                return None;
            }
            b.extend(std::iter::repeat(b'x').take(*n as usize + 1));
            Some((b, true))
        }
        Defect::IsDst { k, value } => {
            if *value <= 1 {
                return None;
            }
            let i = idx(*k, blk.ttinfos.len());
            b[off_types + 6 * i + 4] = *value;
            Some((b, true))
        }
        Defect::DesigIdx { k } => {
            let i = idx(*k, blk.ttinfos.len());
            if blk.chars.len() > 255 {
                return None;
            }
            b[off_types + 6 * i + 5] = blk.chars.len() as u8;
            Some((b, true))
        }
        Defect::NoNul => {
            // remove the terminating NUL of the last string: the last type pointing into it has no terminator
            let last = blk.chars.len() - 1;
            if blk.chars[last] != 0 {
                return None;
            }
            let start = blk.chars[..last].iter().rposition(|&c| c == 0).map(|p| p + 1).unwrap_or(0);
            let used = blk.ttinfos.iter().any(|t| (t.2 as usize) >= start);
            b[off_chars + last] = b'X';
            Some((b, used))
        }
        Defect::Indicator { k, std, ut } => {
            if blk.isstd.is_empty() && blk.isut.is_empty() {
                return None;
            }
            let i = idx(*k, blk.ttinfos.len());
            let mut s = blk.isstd.get(i).copied().unwrap_or(0);
            let mut u = blk.isut.get(i).copied().unwrap_or(0);
            if !blk.isstd.is_empty() {
                b[off_isstd + i] = *std;
                s = *std;
            }
            if !blk.isut.is_empty() {
                b[off_isut + i] = *ut;
                u = *ut;
            }
            Some((b, !matches!((s, u), (0, 0) | (1, 0) | (1, 1))))
        }
        Defect::FooterNoNewline { end } => {
            fm.v2.as_ref()?;
            if *end {
                b.pop();
                // "\n\n" minus the last newline is still a framed empty footer
                let must = !fm.footer.is_empty();
                Some((b, must))
            } else {
                b[foot] = b' ';
                Some((b, true))
            }
        }
        Defect::FooterNul => {
            fm.v2.as_ref()?;
            if fm.footer.is_empty() {
                return None;
            }
            let p = foot + 1 + fm.footer.len() / 2;
            b[p] = 0;
            Some((b, true))
        }
        Defect::FooterColon => {
            fm.v2.as_ref()?;
            if fm.footer.is_empty() {
                return None;
            }
            b.insert(foot + 1, b':');
            Some((b, true))
        }
        Defect::FooterGarbage { text } => {
            fm.v2.as_ref()?;
            let mut f2 = fm.clone();
            f2.footer = text.clone();
            let must = tzstr::parse(tzstr::trim_ascii_ws(text), fm.version == 3).is_err() && !tzstr::trim_ascii_ws(text).is_empty();
            Some((tzif::write(&f2), must))
        }
        Defect::DecoyInconsistent { kind } => {
            fm.v2.as_ref()?;
            let mut f2 = fm.clone();
            let n = f2.v1.ttinfos.len();
            match kind % 4 {
                0 => f2.v1.isut = vec![0; n + 1],
                1 => f2.v1.isstd = vec![0; n + 1],
                2 => {
                    f2.v1.ttinfos.clear();
                    f2.v1.times.clear();
                    f2.v1.type_idx.clear();
                    f2.v1.isut.clear();
                    f2.v1.isstd.clear();
                }
                _ => f2.v1.chars.clear(),
            }
            Some((tzif::write(&f2), true))
        }
        Defect::Byte { at, value } => {
            let i = idx(*at, b.len());
            if b[i] == *value {
                return None;
            }
            b[i] = *value;
            Some((b, false))
        }
    }
}

/// Reference decoding of arbitrary bytes through the independent reader. Ok(Some(zone)) / Ok(None) = unspecified / Err(reason) = must be rejected.
pub fn reference_decode(bytes: &[u8]) -> Result<Option<TimeZone>, String> {
    // the two headers of a v2+ file carrying different version bytes is not covered by the property
    if bytes.len() > 4 && bytes[4] != 0 {
        if let Ok(fm) = tzif::read(bytes) {
            let (second, _) = tzif::layout(&fm);
            if bytes.get(second + 4) != Some(&bytes[4]) {
                return Ok(None);
            }
        }
    }
    let fm = tzif::read(bytes)?;
    let blk = fm.v2.as_ref().unwrap_or(&fm.v1);
    if let Some(d) = tzif::block_defect(blk) {
        return Err(d.into());
    }
    let mut types = vec![];
    for &(off, dst, di) in &blk.ttinfos {
        let name = tzif::designation(&blk.chars, di).ok_or("designation")?;
        let l = tz::LocalTimeType::new(off, dst == 1, if name.is_empty() { None } else { Some(name) }).map_err(|e| format!("{e:?}"))?;
        types.push(l);
    }
    let transitions: Vec<Transition> = blk.times.iter().zip(&blk.type_idx).map(|(&t, &i)| Transition::new(t, i as usize)).collect();
    let leaps: Vec<LeapSecond> = blk.leaps.iter().map(|&(t, c)| LeapSecond::new(t, c)).collect();
    let mut rule: Option<TransitionRule> = None;
    if fm.v2.is_some() {
        let text = std::str::from_utf8(&fm.footer).map_err(|_| "footer not UTF-8")?;
        let t = tzstr::trim_ascii_ws(text.as_bytes());
        if t.first() == Some(&b':') || t.contains(&0) {
            return Err("footer starts with ':' or contains NUL".into());
        }
        if !t.is_empty() {
            let v = tzstr::parse(t, fm.version == 3)?;
            rule = Some(match &v {
                TzEval::Fixed(l) => TransitionRule::Fixed(l.to_tz().map_err(|e| format!("{e:?}"))?),
                TzEval::Alt(r) => {
                    if orule::classify(r) == Class::Unstable {
                        return Err("inconsistent rule".into());
                    }
                    TransitionRule::Alternate(r.to_tz().map_err(|e| format!("{e:?}"))?)
                }
            });
        }
    }
    // zone-level validity is C13's subject: the crate's own constructor is used for it here
    TimeZone::new(transitions, types, leaps, rule).map(Some).map_err(|e| format!("zone refused: {e:?}"))
}

pub fn check_bytes(bytes: &[u8], must_reject: bool, expect: Option<&TimeZone>, st: &mut Stats) -> Result<(), String> {
    st.eval(1);
    let got = TimeZone::from_tz_data(bytes);
    let reference = reference_decode(bytes);
    let hex = || {
        let n = bytes.len().min(96);
        format!("{} bytes, head {:02x?}", bytes.len(), &bytes[..n])
    };
    if must_reject {
        if let Ok(z) = &got {
            return Err(format!("file with a listed format violation was accepted as {z:?} ({})", hex()));
        }
        if let Ok(Some(_)) = reference {
            return Err(format!("ORACLE: reader accepts a file that carries a listed defect ({})", hex()));
        }
    }
    match (&got, &reference) {
        (_, Ok(None)) => {
            st.class("unspecified_mixed_versions");
        }
        (Ok(z), Ok(Some(r))) => {
            let deep = crate::model::MZone::from_tz(z.as_ref()) == crate::model::MZone::from_tz(r.as_ref());
            if (z == r) != deep {
                return Err(format!("`==` on TimeZone says {} but the zones read through their getters are {}: {z:?} / {r:?}", z == r, if deep { "equal" } else { "different" }));
            }
            if z != r || !deep {
                return Err(format!("decoded zone differs from what the file encodes:\n got      {z:?}\n expected {r:?}\n ({})", hex()));
            }
            let (a, b) = (z.as_ref(), r.as_ref());
            if a.transitions() != b.transitions() || a.local_time_types() != b.local_time_types() || a.leap_seconds() != b.leap_seconds() || a.extra_rule() != b.extra_rule() {
                return Err("accessors differ".into());
            }
            st.class("accepted");
        }
        (Err(_), Err(_)) => {
            st.class("rejected");
        }
        (Ok(z), Err(why)) => return Err(format!("malformed file ({why}) was accepted as {z:?} ({})", hex())),
        (Err(e), Ok(Some(r))) => return Err(format!("well-formed file encoding {r:?} was refused with {e:?} ({})", hex())),
    }
    if let Some(x) = expect {
        match &got {
            Ok(z) if z == x && crate::model::MZone::from_tz(z.as_ref()) == crate::model::MZone::from_tz(x.as_ref()) => {}
            other => return Err(format!("file written from zone {x:?} decodes to {other:?} ({})", hex())),
        }
    }
    // The same bytes reached through the other public decoding entry point — a file found by `TimeZoneSettings` — must be decoded
    // or rejected exactly like `from_tz_data` does, whatever the file is called: under an ordinary name, under a name that is also
    // a complete TZ description ("UTC0": a rejected file must not silently turn into the description's zone), with the ':' prefix,
    // as an absolute path and as /etc/localtime (seeded change C08-r9m2). One byte string in four (all must-reject cases).
    if must_reject || bytes.len() % 4 == 0 {
        ENTRY_BYTES.with(|b| *b.borrow_mut() = bytes.to_vec());
        let settings = tz::timezone::TimeZoneSettings::new(&["/zi"], entry_read);
        for name in ["Zone/A", "UTC0", ":UTC0", "/zi/EST5", "localtime", "<+03>-3"] {
            st.eval(1);
            let via = settings.parse_posix_tz(name);
            let same = match (&got, &via) {
                (Ok(a), Ok(b)) => a == b,
                // a rejected file stays a decoding error (a footer defect is reported as a TZ-string / rule error), never an I/O error or a zone
                (Err(_), Err(tz::Error::Tz(_))) => true,
                _ => false,
            };
            if !same {
                let shown = match &via {
                    Ok(z) => format!("Ok({z:?})"),
                    Err(e) => format!("Err({e:?})"),
                };
                return Err(format!("the file read through TimeZoneSettings under the name {name:?} gives {shown}, but from_tz_data on the same bytes gives {:?} ({})", got.as_ref().map_err(|e| format!("{e:?}")), hex()));
            }
        }
        st.class("entry_points_agree");
    }
    Ok(())
}

thread_local! {
    static ENTRY_BYTES: std::cell::RefCell<Vec<u8>> = const { std::cell::RefCell::new(Vec::new()) };
}

/// Read function of the entry-point comparison: every path holds the byte string under test (harness state, thread-local).
fn entry_read(_path: &str) -> Result<Vec<u8>, Box<dyn std::error::Error + Send + Sync + 'static>> {
    Ok(ENTRY_BYTES.with(|b| b.borrow().clone()))
}

/// The bytes of a file case (None: zone not representable in that version, or defect not applicable).
pub fn bytes_for(c: &FileCase) -> Option<Vec<u8>> {
    let fm = file_of(c)?;
    corrupt(&fm, &c.defect).map(|x| x.0)
}

pub fn check_file(c: &FileCase, st: &mut Stats) -> Result<(), String> {
    let fm = match file_of(c) {
        Some(f) => f,
        None => {
            st.exclude("zone not representable in this TZif version / trailer not spellable");
            return Ok(());
        }
    };
    // writer/reader round trip (oracle self-consistency)
    let clean = tzif::write(&fm);
    match tzif::read(&clean) {
        Ok(back) if back == fm => {}
        other => return Err(format!("ORACLE: writer -> reader round trip failed: {other:?}")),
    }
    let (bytes, must) = match corrupt(&fm, &c.defect) {
        Some(x) => x,
        None => {
            st.exclude("defect not applicable");
            return Ok(());
        }
    };
    let expect = if matches!(c.defect, Defect::None) { Some(c.zone.to_tz().map_err(|e| format!("zone refused: {e:?}"))?) } else { None };
    let blk = fm.v2.as_ref().unwrap_or(&fm.v1);
    let shared = {
        let mut v: Vec<u8> = blk.ttinfos.iter().map(|t| t.2).collect();
        v.sort();
        v.windows(2).any(|w| w[0] == w[1])
    };
    if !matches!(c.defect, Defect::None) || (blk.times.len() >= 2 && blk.ttinfos.len() >= 2 && (shared || !blk.leaps.is_empty() || !fm.footer.is_empty())) {
        st.nontrivial(c);
    }
    st.class(&format!("v{}", fm.version));
    st.class(match &c.defect {
        Defect::None => "positive",
        Defect::Truncate { .. } => "truncated",
        Defect::Byte { .. } => "byte_flip",
        _ => "single_listed_defect",
    });
    if must {
        st.class("must_reject");
    }
    if blk.chars.len() > 256 && blk.ttinfos.iter().any(|t| t.2 >= 249) {
        st.class("designation_running_past_offset_256");
    }
    if st.wants_sample("file") {
        st.sample("file", || json!({"version": fm.version, "timecnt": blk.times.len(), "typecnt": blk.ttinfos.len(), "charcnt": blk.chars.len(), "leapcnt": blk.leaps.len(), "isstdcnt": blk.isstd.len(), "isutcnt": blk.isut.len(), "footer": String::from_utf8_lossy(&fm.footer), "defect": format!("{:?}", c.defect)}));
    }
    check_bytes(&bytes, must, expect.as_ref(), st)
}

pub fn replay(kind: &str, case: &Value) -> Result<(), String> {
    match kind {
        "realfile" => {
            let path: String = serde_json::from_value(case["path"].clone()).map_err(|e| e.to_string())?;
            let bytes = std::fs::read(&path).map_err(|e| format!("{path}: {e}"))?;
            check_real(&path, &bytes, &mut Stats::new())
        }
        "bytes" => {
            let b: Vec<u8> = serde_json::from_value(case.clone()).map_err(|e| e.to_string())?;
            check_bytes(&b, false, None, &mut Stats::new())
        }
        _ => check_file(&serde_json::from_value(case.clone()).map_err(|e| e.to_string())?, &mut Stats::new()),
    }
}

fn check_real(path: &str, bytes: &[u8], st: &mut Stats) -> Result<(), String> {
    match reference_decode(bytes) {
        Ok(Some(_)) => {}
        other => return Err(format!("ORACLE/real data: reader does not accept {path}: {other:?}")),
    }
    st.nontrivial_exact(1);
    check_bytes(bytes, false, None, st).map_err(|m| format!("{path}: {m}"))
}

pub fn zoneinfo_files() -> Vec<std::path::PathBuf> {
    fn walk(d: &std::path::Path, out: &mut Vec<std::path::PathBuf>) {
        if let Ok(rd) = std::fs::read_dir(d) {
            for e in rd.flatten() {
                let p = e.path();
                if p.is_dir() {
                    walk(&p, out);
                } else {
                    out.push(p);
                }
            }
        }
    }
    let mut v = vec![];
    walk(&crate::run::verif_dir().join("build/zoneinfo"), &mut v);
    v.sort();
    v
}

/// zones representable in a file: trailer types spellable in a TZ description
pub fn arb_file_zone() -> SBoxedStrategy<MZone> {
    prop_oneof![3 => gens::arb_zone(ZoneCfg { max_trans: 20, leaps: true, wide_times: true }), 1 => gens::arb_aligned_zone()]
        .prop_map(|mut z| {
            if let MTrailer::Fixed(l) = &z.trailer {
                let mut n = l.clone();
                n.dst = false;
                n.off = n.off.clamp(-89_999, 89_999);
                if n.name.is_none() {
                    n.name = Some("FIX".into());
                }
                for t in z.types.iter_mut() {
                    if t == l {
                        *t = n.clone();
                    }
                }
                z.trailer = MTrailer::Fixed(n);
            }
            z
        })
        .sboxed()
}

pub fn arb_defect() -> SBoxedStrategy<Defect> {
    let header = prop_oneof![
        1 => any::<u8>().prop_map(|pos| Defect::Magic { pos }),
        1 => (any::<u8>(), any::<bool>()).prop_map(|(byte, second)| Defect::Version { byte, second }),
        3 => (any::<bool>(), 0u8..6, prop_oneof![Just(0u32), Just(1u32), 0u32..8, Just(u32::MAX), Just(1u32 << 31), Just(65536u32)]).prop_map(|(second, field, value)| Defect::Count { second, field, value }),
        3 => any::<u32>().prop_map(|at| Defect::Truncate { at }),
        1 => any::<u8>().prop_map(|n| Defect::Trailing { n }),
        1 => any::<u8>().prop_map(|kind| Defect::DecoyInconsistent { kind }),
    ];
    let body = prop_oneof![
        1 => (any::<u32>(), 2u8..=255).prop_map(|(k, value)| Defect::IsDst { k, value }),
        1 => any::<u32>().prop_map(|k| Defect::DesigIdx { k }),
        1 => Just(Defect::NoNul),
        2 => (any::<u32>(), 0u8..3, 0u8..3).prop_map(|(k, std, ut)| Defect::Indicator { k, std, ut }),
        2 => (any::<u32>(), any::<u8>()).prop_map(|(at, value)| Defect::Byte { at, value }),
    ];
    let footer = prop_oneof![
        1 => any::<bool>().prop_map(|end| Defect::FooterNoNewline { end }),
        1 => Just(Defect::FooterNul),
        1 => Just(Defect::FooterColon),
        1 => proptest::sample::select(vec!["AAA", "AAA0BBB", "AAA0BBB,J1", "xyz", "AAA0 BBB", "AAA0BBB,M3.2.0/25,M11.1.0", "AAA0BBB,M3.2.0/-1,M11.1.0", "AAA0,J1,J2", " ", "\t", "UTC0\nUTC0", "AAA0BBB,M3.2.0/+2,M11.1.0", "AAA0BBB,M3.2.0/-0:30,M11.1.0", "\u{b}EST5", "EST5\u{a0}", "\u{2028}", "\u{85}EST5EDT,M3.2.0,M11.1.0", "EST5\u{3000}"]).prop_map(|t| Defect::FooterGarbage { text: t.as_bytes().to_vec() }),
    ];
    prop_oneof![6 => Just(Defect::None), 9 => header, 7 => body, 4 => footer].sboxed()
}

pub fn run(ctx: &Ctx) -> Outcome {
    let mut out = Outcome::new(
        "(positive) valid zones (all shapes, +-leap tables, 64-bit times incl. extremes, zic-aligned tables) -> independent TZif writer in v1 / v2 / v3: random designation-table layout (shared strings, suffix sharing, decoy string, index into the middle), all four isstd/isut presence combinations with legal pairs, decoy 32-bit block with different counts/times/types, footers spelled with independent choices (extension-only footers in v3); \
         from_tz_data(bytes) must equal TimeZone::new(parts). (negative) exactly one defect per file from 14 classes (magic, version byte, each header count, truncation at a random offset, trailing bytes after v1, isdst not 0/1, designation index = charcnt, missing NUL, indicator pairs, footer framing / NUL / ':' / non-sentence, single byte overwrite); listed violations must be rejected, every other outcome is decided by the independent strict reader + O-tzstr. \
         (real data) every TZif file of the vendored tzdata 2025b snapshot decoded by the reader and compared part by part; quick: every truncation point of 24 of them, thorough: of all. Non-trivial: any corrupted file, or a positive file with >= 2 transitions, >= 2 types and (shared designation or leap records or footer).",
    );
    out.assumptions = vec![
        "zone-level validity (C13) is taken from the crate's own constructor inside the reference decoding; C08 is about the byte-level decoding".into(),
        "files whose two headers carry different version bytes are outside the property (no claim)".into(),
    ];
    // real data
    let files = zoneinfo_files();
    if files.len() < 800 {
        out.failure = Some(Failure::new("infra", format!("tzdata snapshot not unpacked ({} files under build/zoneinfo): run ./setup.sh", files.len()), json!(null)));
        return out;
    }
    let fr = &files;
    let rs = par_shards(16, |shard, st| {
        for (i, p) in fr.iter().enumerate() {
            if i as u64 % 16 != shard {
                continue;
            }
            let bytes = std::fs::read(p).map_err(|e| Failure::new("infra", format!("{p:?}: {e}"), json!(null)))?;
            let ps = p.display().to_string();
            match std::panic::catch_unwind(std::panic::AssertUnwindSafe(|| check_real(&ps, &bytes, st))) {
                Ok(Ok(())) => {}
                Ok(Err(m)) => return Err(Failure::new("realfile", m, json!({"path": ps}))),
                Err(p) => return Err(Failure::new("realfile", format!("PANIC {}", panic_msg(&p)), json!({"path": ps}))),
            }
            st.class("real_file");
            // every truncation point (quick: a subset of files)
            if ctx.tier == Tier::Thorough || i % 37 == 0 {
                for n in 0..bytes.len() {
                    let pre = bytes[..n].to_vec();
                    check_enum("bytes", &pre, st, |b, st| check_bytes(b, false, None, st).map_err(|m| format!("{ps} truncated to {n} bytes: {m}")))?;
                    st.nontrivial_exact(1);
                }
            }
        }
        Ok(())
    });
    out.absorb_all(rs);
    if out.failure.is_some() {
        return out;
    }
    // the full one-byte index space: 255 and 256 local time types, transitions pointing at the last ones
    let rs = par_shards(1, |_, st| {
        for n in [255usize, 256] {
            let names = ["AAA", "BBBB", "CC-03", "+0530"];
            let types: Vec<MLtt> = (0..n).map(|k| MLtt::new(k as i32 * 60 - 7680, k % 2 == 1, Some(names[k % 4]))).collect();
            let trans: Vec<(i64, usize)> = (0..n).map(|k| (k as i64 * 1000, n - 1 - (k % 3))).collect();
            for version in [1u8, 2, 3] {
                let c = FileCase { zone: MZone { trans: trans.clone(), types: types.clone(), leaps: vec![], trailer: MTrailer::None }, version, ent: vec![u32::MAX; 8], defect: Defect::None };
                if file_of(&c).is_none() {
                    return Err(Failure::new("infra", "the 255/256-type family is not representable by the writer", serde_json::json!(n)));
                }
                check_enum("file", &c, st, check_file)?;
                st.class("files_with_255_or_256_types");
            }
        }
        Ok(())
    });
    out.absorb_all(rs);
    if out.failure.is_some() {
        return out;
    }
    // generated files
    let strat = (arb_file_zone(), prop_oneof![1 => Just(1u8), 2 => Just(2u8), 3 => Just(3u8)], proptest::collection::vec(any::<u32>(), 8..16), arb_defect()).prop_map(|(zone, version, ent, defect)| {
        // v1 cannot carry a trailer or wide times: strip them rather than discard the case
        let mut zone = zone;
        if version == 1 {
            zone.trailer = MTrailer::None;
            zone.trans.retain(|t| t.0 >= i32::MIN as i64 && t.0 <= i32::MAX as i64);
            zone.leaps.retain(|l| l.0 <= i32::MAX as i64);
        }
        FileCase { zone, version, ent, defect }
    });
    let cases = ctx.tier.pick(40_000u32, 400_000u32);
    let rs = par_shards(16, |shard, st| pt_shard(ctx, "file", shard, cases, &strat, st, check_file));
    out.absorb_all(rs);
    let _ = MRule::d;
    out
}
