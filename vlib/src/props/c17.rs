//! C17 — see search.rs (shared generator and model for C05 / C06 / C14 / C17; this module selects the assertions of C17).
use crate::run::*;
use crate::search::{self, Focus};
use serde_json::Value;

pub fn run(ctx: &Ctx) -> Outcome {
    search::run_search(ctx, Focus::C17, RULE)
}

pub fn replay(_kind: &str, case: &Value) -> Result<(), String> {
    search::replay_search(Focus::C17, case)
}

const RULE: &str = "Every C05/C06 search with k results is repeated through find_n with every buffer length n in 0..=k+2, the buffer pre-filled with the entries left by the previous search of the same case (2-step history; sentinels when that was empty). Asserted: data() has min(n,k) entries equal field by field (all getters, both halves of gap entries) to the allocating search's prefix, count() == k, is_exhaustive() iff n >= k, \
slots beyond min(n,k) keep their pre-fill, same error kind when the allocating search fails, and when exhaustive unique/earliest/latest equal the allocating search's. Non-trivial: k >= 2 or local time within 1 s of an event's clock interval; classes count n < k and stale pre-fill longer than the result.";
