//! O-leap: leap-second model written from the property text.
//! Record i = (L_i, c_i): L_i is a time on the leap-second-counting scale, c_i the cumulative correction from L_i on.
//! A record is in effect at UTC instant u iff u >= L_i - c_{i-1}; F(u) = u + (correction in effect).
//! A transition recorded at count T takes effect at u_T = min{u : F(u) >= T}.

/// Correction in effect at UTC instant u (largest i with u >= L_i - c_{i-1}; valid tables make that a prefix).
pub fn corr_at(recs: &[(i64, i32)], u: i64) -> i64 {
    let mut c = 0i64;
    let mut prev = 0i64;
    for &(l, ci) in recs {
        if (u as i128) >= l as i128 - prev as i128 {
            c = ci as i64;
        }
        prev = ci as i64;
    }
    c
}

/// F(u) in i128 (no overflow).
pub fn f(recs: &[(i64, i32)], u: i64) -> i128 {
    u as i128 + corr_at(recs, u) as i128
}

/// u_T = min{u : F(u) >= T}, by linear scan over the only candidates possible (|F(u)-u| <= max |c|). None if outside i64.
pub fn g(recs: &[(i64, i32)], t: i64) -> Option<i64> {
    let cmax = recs.iter().map(|r| r.1 as i128).fold(0i128, |a, b| a.max(b));
    let cmin = recs.iter().map(|r| r.1 as i128).fold(0i128, |a, b| a.min(b));
    let lo = t as i128 - cmax - 2;
    let hi = t as i128 - cmin + 2;
    let mut u = lo;
    while u <= hi {
        if u >= i64::MIN as i128 && u <= i64::MAX as i128 {
            if f(recs, u as i64) >= t as i128 {
                // minimality: F is monotone, and F(lo) < T by construction unless clipped at i64::MIN
                return Some(u as i64);
            }
        }
        u += 1;
    }
    None
}

/// Is u deleted by a negative leap second (it shares its count with u-1)?
pub fn deleted(recs: &[(i64, i32)], u: i64) -> bool {
    u > i64::MIN && f(recs, u) == f(recs, u - 1)
}

/// The 27 leap seconds 1972-2016 on the counting scale, as the right/ files carry them.
pub fn real_table() -> Vec<(i64, i32)> {
    let dates: [(i64, i64, i64); 27] = [
        (1972, 7, 1), (1973, 1, 1), (1974, 1, 1), (1975, 1, 1), (1976, 1, 1), (1977, 1, 1), (1978, 1, 1), (1979, 1, 1), (1980, 1, 1),
        (1981, 7, 1), (1982, 7, 1), (1983, 7, 1), (1985, 7, 1), (1988, 1, 1), (1990, 1, 1), (1991, 1, 1), (1992, 7, 1), (1993, 7, 1),
        (1994, 7, 1), (1996, 1, 1), (1997, 7, 1), (1999, 1, 1), (2006, 1, 1), (2009, 1, 1), (2012, 7, 1), (2015, 7, 1), (2017, 1, 1),
    ];
    dates.iter().enumerate().map(|(i, &(y, m, d))| (crate::cal::days_from_civil(y, m, d) * 86400 + i as i64, i as i32 + 1)).collect()
}

/// Validity of a leap table as the property states it.
pub fn valid_table(recs: &[(i64, i32)]) -> bool {
    if recs.is_empty() {
        return true;
    }
    if recs[0].0 < 0 || (recs[0].1 != 1 && recs[0].1 != -1) {
        return false;
    }
    recs.windows(2).all(|w| {
        let dt = w[1].0 as i128 - w[0].0 as i128;
        let dc = w[1].1 as i64 - w[0].1 as i64;
        dt >= 28 * 86400 - 1 && (dc == 1 || dc == -1)
    })
}
