//! O-tzif: TZif writer and strict reader written from RFC 8536 §3 (independent of the crate's parser).
use serde::{Deserialize, Serialize};

#[derive(Debug, Clone, PartialEq, Eq, Serialize, Deserialize, Hash)]
pub struct Block {
    pub times: Vec<i64>,
    pub type_idx: Vec<u8>,
    /// (utoff, isdst, desigidx)
    pub ttinfos: Vec<(i32, u8, u8)>,
    /// designation table (NUL-terminated strings, may share suffixes)
    pub chars: Vec<u8>,
    /// (occurrence, correction)
    pub leaps: Vec<(i64, i32)>,
    pub isstd: Vec<u8>,
    pub isut: Vec<u8>,
}

#[derive(Debug, Clone, PartialEq, Eq, Serialize, Deserialize, Hash)]
pub struct FileModel {
    /// 1, 2 or 3 (version byte 0, '2', '3'); other values are written verbatim as the byte
    pub version: u8,
    /// the 32-bit block (the only one for v1; a decoy for v2+)
    pub v1: Block,
    /// the 64-bit block (v2+)
    pub v2: Option<Block>,
    /// footer text between the two newlines (v2+)
    pub footer: Vec<u8>,
}

fn header(out: &mut Vec<u8>, version_byte: u8, b: &Block) {
    out.extend_from_slice(b"TZif");
    out.push(version_byte);
    out.extend_from_slice(&[0u8; 15]);
    // RFC order: isutcnt, isstdcnt, leapcnt, timecnt, typecnt, charcnt
    for n in [b.isut.len(), b.isstd.len(), b.leaps.len(), b.times.len(), b.ttinfos.len(), b.chars.len()] {
        out.extend_from_slice(&(n as u32).to_be_bytes());
    }
}

fn body(out: &mut Vec<u8>, b: &Block, wide: bool) {
    for &t in &b.times {
        if wide {
            out.extend_from_slice(&t.to_be_bytes());
        } else {
            out.extend_from_slice(&(t as i32).to_be_bytes());
        }
    }
    out.extend_from_slice(&b.type_idx);
    for &(off, dst, idx) in &b.ttinfos {
        out.extend_from_slice(&off.to_be_bytes());
        out.push(dst);
        out.push(idx);
    }
    out.extend_from_slice(&b.chars);
    for &(t, c) in &b.leaps {
        if wide {
            out.extend_from_slice(&t.to_be_bytes());
        } else {
            out.extend_from_slice(&(t as i32).to_be_bytes());
        }
        out.extend_from_slice(&c.to_be_bytes());
    }
    out.extend_from_slice(&b.isstd);
    out.extend_from_slice(&b.isut);
}

pub fn version_byte(v: u8) -> u8 {
    match v {
        1 => 0,
        2 => b'2',
        3 => b'3',
        other => other,
    }
}

pub fn write(f: &FileModel) -> Vec<u8> {
    let mut out = Vec::new();
    let vb = version_byte(f.version);
    header(&mut out, vb, &f.v1);
    body(&mut out, &f.v1, false);
    if let Some(b2) = &f.v2 {
        header(&mut out, vb, b2);
        body(&mut out, b2, true);
        out.push(b'\n');
        out.extend_from_slice(&f.footer);
        out.push(b'\n');
    }
    out
}

/// Offsets of interesting places in the written file (for corruption): start of second header, start of footer.
pub fn layout(f: &FileModel) -> (usize, usize) {
    let mut a = Vec::new();
    header(&mut a, 0, &f.v1);
    body(&mut a, &f.v1, false);
    let second = a.len();
    let mut foot = second;
    if let Some(b2) = &f.v2 {
        header(&mut a, 0, b2);
        body(&mut a, b2, true);
        foot = a.len();
    }
    (second, foot)
}

struct R<'a> {
    b: &'a [u8],
    i: usize,
}
impl<'a> R<'a> {
    fn take(&mut self, n: usize) -> Result<&'a [u8], String> {
        if n > self.b.len() - self.i {
            return Err(format!("truncated: need {n} bytes at {}", self.i));
        }
        let s = &self.b[self.i..self.i + n];
        self.i += n;
        Ok(s)
    }
    fn u32(&mut self) -> Result<u32, String> {
        Ok(u32::from_be_bytes(self.take(4)?.try_into().unwrap()))
    }
}

fn read_header(r: &mut R) -> Result<(u8, [usize; 6]), String> {
    if r.take(4)? != b"TZif" {
        return Err("bad magic".into());
    }
    let v = r.take(1)?[0];
    if v != 0 && v != b'2' && v != b'3' {
        return Err(format!("unsupported version byte {v}"));
    }
    r.take(15)?;
    let mut c = [0usize; 6];
    for k in c.iter_mut() {
        *k = r.u32()? as usize;
    }
    // isutcnt, isstdcnt, leapcnt, timecnt, typecnt, charcnt
    if c[4] == 0 {
        return Err("typecnt = 0".into());
    }
    if c[5] == 0 {
        return Err("charcnt = 0".into());
    }
    if c[0] != 0 && c[0] != c[4] {
        return Err("isutcnt not 0 or typecnt".into());
    }
    if c[1] != 0 && c[1] != c[4] {
        return Err("isstdcnt not 0 or typecnt".into());
    }
    Ok((v, c))
}

fn read_block(r: &mut R, c: &[usize; 6], wide: bool) -> Result<Block, String> {
    let ts = if wide { 8 } else { 4 };
    let [isut, isstd, leap, time, typ, chr] = *c;
    let mut times = vec![];
    let raw = r.take(time.checked_mul(ts).ok_or("overflow")?)?;
    for ch in raw.chunks(ts) {
        times.push(if wide { i64::from_be_bytes(ch.try_into().unwrap()) } else { i32::from_be_bytes(ch.try_into().unwrap()) as i64 });
    }
    let type_idx = r.take(time)?.to_vec();
    let mut ttinfos = vec![];
    let raw = r.take(typ.checked_mul(6).ok_or("overflow")?)?;
    for ch in raw.chunks(6) {
        ttinfos.push((i32::from_be_bytes(ch[0..4].try_into().unwrap()), ch[4], ch[5]));
    }
    let chars = r.take(chr)?.to_vec();
    let mut leaps = vec![];
    let raw = r.take(leap.checked_mul(ts + 4).ok_or("overflow")?)?;
    for ch in raw.chunks(ts + 4) {
        let t = if wide { i64::from_be_bytes(ch[0..8].try_into().unwrap()) } else { i32::from_be_bytes(ch[0..4].try_into().unwrap()) as i64 };
        leaps.push((t, i32::from_be_bytes(ch[ts..ts + 4].try_into().unwrap())));
    }
    let isstd_v = r.take(isstd)?.to_vec();
    let isut_v = r.take(isut)?.to_vec();
    Ok(Block { times, type_idx, ttinfos, chars, leaps, isstd: isstd_v, isut: isut_v })
}

/// Structural validity of a block's contents as the property lists it (beyond sizes): DST flag 0/1, designation index in
/// range and NUL-terminated, indicator pairs (isstd, isut) in {(0,0), (1,0), (1,1)}.
pub fn block_defect(b: &Block) -> Option<&'static str> {
    for &(_, dst, idx) in &b.ttinfos {
        if dst > 1 {
            return Some("isdst not 0/1");
        }
        if idx as usize >= b.chars.len() {
            return Some("designation index out of range");
        }
        if !b.chars[idx as usize..].contains(&0) {
            return Some("designation not NUL-terminated");
        }
    }
    for k in 0..b.ttinfos.len() {
        let s = b.isstd.get(k).copied().unwrap_or(0);
        let u = b.isut.get(k).copied().unwrap_or(0);
        if !matches!((s, u), (0, 0) | (1, 0) | (1, 1)) {
            return Some("bad indicator pair");
        }
    }
    None
}

/// Strict reader. Ok(model) for files that are well formed at the container level (sizes, framing); contents are returned raw.
pub fn read(bytes: &[u8]) -> Result<FileModel, String> {
    let mut r = R { b: bytes, i: 0 };
    let (v, c) = read_header(&mut r)?;
    let v1 = read_block(&mut r, &c, false)?;
    if v == 0 {
        if r.i != bytes.len() {
            return Err("trailing bytes after a v1 body".into());
        }
        return Ok(FileModel { version: 1, v1, v2: None, footer: vec![] });
    }
    let (_v2, c2) = read_header(&mut r)?;
    let b2 = read_block(&mut r, &c2, true)?;
    let foot = &bytes[r.i..];
    if foot.len() < 1 || foot[0] != b'\n' || foot[foot.len() - 1] != b'\n' {
        return Err("footer not newline-framed".into());
    }
    // a single "\n" is both the opening and the closing newline of an empty footer
    let inner = if foot.len() >= 2 { &foot[1..foot.len() - 1] } else { &foot[0..0] };
    Ok(FileModel { version: if v == b'2' { 2 } else { 3 }, v1, v2: Some(b2), footer: inner.to_vec() })
}

/// Designation string addressed by `idx` in a designation table.
pub fn designation(chars: &[u8], idx: u8) -> Option<&[u8]> {
    let s = chars.get(idx as usize..)?;
    let n = s.iter().position(|&c| c == 0)?;
    Some(&s[..n])
}

/// Minimal v2/v3 file carrying `footer` (used to observe the TZ-string parser in footer mode).
pub fn footer_file(version: u8, footer: &[u8]) -> Vec<u8> {
    let b = Block { times: vec![], type_idx: vec![], ttinfos: vec![(0, 0, 0)], chars: b"UTC\0".to_vec(), leaps: vec![], isstd: vec![], isut: vec![] };
    write(&FileModel { version, v1: b.clone(), v2: Some(b), footer: footer.to_vec() })
}
