//! O-cal: independent proleptic Gregorian calendar (era based floor arithmetic, after H. Hinnant's
//! `days_from_civil` / `civil_from_days`), validated at start-up against a day-by-day odometer.
//! Shares no code, constant or algorithm with the crate under test.

/// Floor division / modulo written with truncating operators and a fix-up.
#[inline]
pub fn fdiv(a: i64, b: i64) -> i64 {
    let mut q = a / b;
    if (a % b != 0) && ((a < 0) != (b < 0)) {
        q -= 1;
    }
    q
}
#[inline]
pub fn fmod(a: i64, b: i64) -> i64 {
    a - b * fdiv(a, b)
}
#[inline]
pub fn fdiv128(a: i128, b: i128) -> i128 {
    let mut q = a / b;
    if (a % b != 0) && ((a < 0) != (b < 0)) {
        q -= 1;
    }
    q
}
#[inline]
pub fn fmod128(a: i128, b: i128) -> i128 {
    a - b * fdiv128(a, b)
}

#[inline]
pub fn is_leap(y: i64) -> bool {
    if fmod(y, 4) != 0 {
        false
    } else if fmod(y, 100) != 0 {
        true
    } else {
        fmod(y, 400) == 0
    }
}

#[inline]
pub fn days_in_month(y: i64, m: i64) -> i64 {
    match m {
        1 | 3 | 5 | 7 | 8 | 10 | 12 => 31,
        4 | 6 | 9 | 11 => 30,
        2 => {
            if is_leap(y) {
                29
            } else {
                28
            }
        }
        _ => 0,
    }
}

/// Days since 1970-01-01 of the civil date y-m-d (m in 1..=12; d may exceed the month length, it is
/// simply added, so "December 32nd" is 1 January of the next year).
#[inline]
pub fn days_from_civil(y: i64, m: i64, d: i64) -> i64 {
    let y2 = if m <= 2 { y - 1 } else { y };
    let era = fdiv(y2, 400);
    let yoe = y2 - era * 400; // [0, 399]
    let mp = if m > 2 { m - 3 } else { m + 9 }; // March = 0
    let doy = (153 * mp + 2) / 5 + d - 1;
    let doe = yoe * 365 + yoe / 4 - yoe / 100 + doy;
    era * 146097 + doe - 719468
}

/// Civil date of a day count since 1970-01-01.
#[inline]
pub fn civil_from_days(z: i64) -> (i64, i64, i64) {
    let z = z + 719468;
    let era = fdiv(z, 146097);
    let doe = z - era * 146097; // [0, 146096]
    let yoe = (doe - doe / 1460 + doe / 36524 - doe / 146096) / 365; // [0, 399]
    let y = yoe + era * 400;
    let doy = doe - (365 * yoe + yoe / 4 - yoe / 100); // [0, 365]
    let mp = (5 * doy + 2) / 153; // [0, 11]
    let d = doy - (153 * mp + 2) / 5 + 1;
    let m = if mp < 10 { mp + 3 } else { mp - 9 };
    (if m <= 2 { y + 1 } else { y }, m, d)
}

/// Day of week, 0 = Sunday (1970-01-01 was a Thursday).
#[inline]
pub fn weekday(days: i64) -> i64 {
    fmod(days + 4, 7)
}

/// Zero-based day of year.
#[inline]
pub fn year_day(y: i64, m: i64, d: i64) -> i64 {
    days_from_civil(y, m, d) - days_from_civil(y, 1, 1)
}

#[derive(Debug, Clone, Copy, PartialEq, Eq, serde::Serialize, serde::Deserialize)]
pub struct Civil {
    pub y: i64,
    pub mo: i64,
    pub d: i64,
    pub h: i64,
    pub mi: i64,
    pub s: i64,
}

/// Civil fields of a second count since the epoch (any i128 that leaves the day count inside i64).
pub fn civil_from_unix(t: i128) -> Civil {
    let days = fdiv128(t, 86400) as i64;
    let sod = fmod128(t, 86400) as i64;
    let (y, mo, d) = civil_from_days(days);
    Civil { y, mo, d, h: sod / 3600, mi: (sod / 60) % 60, s: sod % 60 }
}

/// Second count of civil fields (second may be 60: it is simply added).
pub fn unix_from_civil(y: i64, mo: i64, d: i64, h: i64, mi: i64, s: i64) -> i128 {
    days_from_civil(y, mo, d) as i128 * 86400 + (h * 3600 + mi * 60 + s) as i128
}

/// Smallest / largest Unix time whose year fits an i32.
pub fn min_unix() -> i64 {
    (days_from_civil(i32::MIN as i64, 1, 1) as i128 * 86400) as i64
}
pub fn max_unix() -> i64 {
    (days_from_civil(i32::MAX as i64, 12, 31) as i128 * 86400 + 86399) as i64
}

/// Oracle self-test: a day-by-day odometer (literal month table, leap rule spelled out) walked over
/// 1600-01-01 ..= 2400-01-01 must agree with both conversion directions, weekday included; plus
/// periodicity spot checks far away. A failure here is a broken oracle (exit 2), never a finding.
pub fn selftest() -> Result<(), String> {
    const ML: [i64; 12] = [31, 28, 31, 30, 31, 30, 31, 31, 30, 31, 30, 31];
    let leap = |y: i64| (y % 4 == 0 && y % 100 != 0) || y % 400 == 0; // y > 0 here
    let (mut y, mut m, mut d) = (1600i64, 1i64, 1i64);
    // 1970-01-01 is day 0: count backwards literally to find the day number of 1600-01-01.
    let mut n: i64 = 0;
    for yy in 1600..1970 {
        n -= if leap(yy) { 366 } else { 365 };
    }
    let mut wd = {
        // 1970-01-01 is a Thursday (4); step back n days.
        let mut w = 4i64;
        let mut k = n;
        while k < 0 {
            w = (w + 6) % 7;
            k += 1;
        }
        w
    };
    let mut count = 0;
    while !(y == 2400 && m == 1 && d == 2) {
        if days_from_civil(y, m, d) != n {
            return Err(format!("days_from_civil({y},{m},{d}) = {} expected {n}", days_from_civil(y, m, d)));
        }
        if civil_from_days(n) != (y, m, d) {
            return Err(format!("civil_from_days({n}) = {:?} expected {:?}", civil_from_days(n), (y, m, d)));
        }
        if weekday(n) != wd {
            return Err(format!("weekday({n}) = {} expected {wd}", weekday(n)));
        }
        if is_leap(y) != leap(y) {
            return Err(format!("is_leap({y})"));
        }
        // advance odometer
        let ml = if m == 2 && leap(y) { 29 } else { ML[(m - 1) as usize] };
        if days_in_month(y, m) != ml {
            return Err(format!("days_in_month({y},{m})"));
        }
        d += 1;
        if d > ml {
            d = 1;
            m += 1;
            if m > 12 {
                m = 1;
                y += 1;
            }
        }
        n += 1;
        wd = (wd + 1) % 7;
        count += 1;
    }
    if count != 292195 {
        return Err(format!("odometer walked {count} days"));
    }
    // periodicity far away (both signs) and range constants quoted in the property text
    for &k in &[-5368709i64, -1000, -5, 5, 1000, 5368708] {
        for &(yy, mm, dd) in &[(2000i64, 2i64, 29i64), (1900, 3, 1), (1999, 12, 31), (2001, 1, 1)] {
            let base = days_from_civil(yy, mm, dd);
            let far = days_from_civil(yy + 400 * k, mm, dd);
            if far != base + 146097 * k {
                return Err(format!("periodicity days_from_civil k={k}"));
            }
            if civil_from_days(far) != (yy + 400 * k, mm, dd) {
                return Err(format!("periodicity civil_from_days k={k}"));
            }
        }
    }
    if min_unix() != -67768100567971200 || max_unix() != 67767976233532799 {
        return Err(format!("range constants {} {}", min_unix(), max_unix()));
    }
    if civil_from_unix(951868800) != (Civil { y: 2000, mo: 3, d: 1, h: 0, mi: 0, s: 0 }) {
        return Err("2000-03-01 anchor".into());
    }
    if civil_from_unix(-1) != (Civil { y: 1969, mo: 12, d: 31, h: 23, mi: 59, s: 59 }) {
        return Err("-1 anchor".into());
    }
    Ok(())
}
