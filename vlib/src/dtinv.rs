//! C14's invariant monitor: run on every DateTime any check obtains.
use crate::cal;
use tz::DateTime;

/// fields = UTC calendar fields of (unix + offset), second 60 standing for the next minute's second 0; getters consistent.
pub fn check_dt(dt: &DateTime) -> Result<(), String> {
    let (y, mo, d, h, mi, s) = (dt.year() as i64, dt.month() as i64, dt.month_day() as i64, dt.hour() as i64, dt.minute() as i64, dt.second() as i64);
    if !(1..=12).contains(&mo) || d < 1 || d > cal::days_in_month(y, mo) || h > 23 || mi > 59 || s > 60 {
        return Err(format!("DateTime {dt} (unix {}) has a field outside its documented range", dt.unix_time()));
    }
    let civil = cal::unix_from_civil(y, mo, d, h, mi, s);
    let off = dt.local_time_type().ut_offset() as i128;
    if civil != dt.unix_time() as i128 + off {
        let c = cal::civil_from_unix(dt.unix_time() as i128 + off);
        return Err(format!("DateTime {dt}: fields denote civil second {civil}, but unix_time {} + offset {off} = {} ({c:?})", dt.unix_time(), dt.unix_time() as i128 + off));
    }
    let days = cal::days_from_civil(y, mo, d);
    if dt.week_day() as i64 != cal::weekday(days) {
        return Err(format!("DateTime {dt}: week_day {} expected {}", dt.week_day(), cal::weekday(days)));
    }
    if dt.year_day() as i64 != cal::year_day(y, mo, d) {
        return Err(format!("DateTime {dt}: year_day {} expected {}", dt.year_day(), cal::year_day(y, mo, d)));
    }
    if dt.total_nanoseconds() != dt.unix_time() as i128 * 1_000_000_000 + dt.nanoseconds() as i128 {
        return Err(format!("DateTime {dt}: total_nanoseconds {} != unix*1e9+ns", dt.total_nanoseconds()));
    }
    Ok(())
}
