//! O-zone: zone timeline model (forward lookup by linear scan; search by explicit event list).
use crate::cal;
use crate::model::{MLtt, MRule, MTrailer, MZone};
use crate::oleap;
use crate::orule::{self, Class};
use serde::{Deserialize, Serialize};

#[derive(Debug, Clone, Copy, PartialEq, Eq, Hash, Serialize, Deserialize)]
pub enum TypeRef {
    Slot(usize),
    Fixed,
    RuleStd,
    RuleDst,
}

#[derive(Debug, Clone, Copy, PartialEq, Eq, Serialize, Deserialize)]
pub enum Fwd {
    Type(TypeRef),
    /// "no local time type available" (at/after the last transition of a zone without trailer)
    NoType,
    /// an out-of-range error is the expected answer
    OutOfRange,
    /// the property does not pin the answer here (only: no panic; if Ok then consistent)
    Unspecified,
}

pub struct ZoneModel<'a> {
    pub z: &'a MZone,
    pub class: Option<Class>,
}

impl<'a> ZoneModel<'a> {
    pub fn new(z: &'a MZone) -> Self {
        let class = match &z.trailer {
            MTrailer::Alt(r) => Some(orule::classify(r)),
            _ => None,
        };
        ZoneModel { z, class }
    }
    pub fn ltt(&self, t: TypeRef) -> &MLtt {
        match (t, &self.z.trailer) {
            (TypeRef::Slot(i), _) => &self.z.types[i],
            (TypeRef::Fixed, MTrailer::Fixed(l)) => l,
            (TypeRef::RuleStd, MTrailer::Alt(r)) => &r.std,
            (TypeRef::RuleDst, MTrailer::Alt(r)) => &r.dst,
            _ => panic!("type ref does not match trailer"),
        }
    }
    fn rule_at(&self, r: &MRule, u: i64) -> Fwd {
        // outside the years for which the property quantifies (i32::MIN+2 ..= i32::MAX-2) the rule's answer is not pinned:
        // today the crate refuses with OutOfRange; evaluating the rule there would be equally compatible
        if u < cal::min_unix() || u > cal::max_unix() {
            return Fwd::Unspecified;
        }
        let y = cal::civil_from_unix(u as i128).y;
        if y < i32::MIN as i64 + 2 || y > i32::MAX as i64 - 2 {
            return Fwd::Unspecified;
        }
        match self.class.unwrap() {
            Class::Unstable => Fwd::Unspecified,
            Class::Overlap if crate::search::overlap_listed_as_known() => Fwd::Unspecified,
            c => Fwd::Type(if orule::is_dst(r, c, u) { TypeRef::RuleDst } else { TypeRef::RuleStd }),
        }
    }
    fn trailer_at(&self, u: i64) -> Fwd {
        match &self.z.trailer {
            MTrailer::None => Fwd::NoType,
            MTrailer::Fixed(_) => Fwd::Type(TypeRef::Fixed),
            MTrailer::Alt(r) => self.rule_at(r, u),
        }
    }
    /// Forward lookup by linear scan.
    pub fn forward(&self, u: i64) -> Fwd {
        let z = self.z;
        if z.trans.is_empty() {
            return match &z.trailer {
                MTrailer::None => Fwd::Type(TypeRef::Slot(0)),
                _ => self.trailer_at(u),
            };
        }
        let lt = oleap::f(&z.leaps, u);
        if lt < i64::MIN as i128 || lt > i64::MAX as i128 {
            return Fwd::OutOfRange;
        }
        // near the i64 limits with a leap table an intermediate sum of the crate's scan may overflow where the final one does not
        if !z.leaps.is_empty() && (u > i64::MAX - (1 << 32) || u < i64::MIN + (1 << 32)) {
            return Fwd::Unspecified;
        }
        let last = z.trans[z.trans.len() - 1].0;
        if lt >= last as i128 {
            return self.trailer_at(u);
        }
        let mut slot = 0usize;
        for &(t, i) in &z.trans {
            if (t as i128) <= lt {
                slot = i;
            } else {
                break;
            }
        }
        Fwd::Type(TypeRef::Slot(slot))
    }
    /// UTC switch instant of table transition i.
    pub fn switch_instant(&self, i: usize) -> Option<i64> {
        oleap::g(&self.z.leaps, self.z.trans[i].0)
    }
}

/// Validity predicate of a zone, as C13 states it (components assumed individually constructible).
/// Ok(()) valid; Err(kind) first violated clause in the property's order; None = unspecified corner.
pub fn zone_validity(z: &MZone) -> Option<Result<(), &'static str>> {
    if z.types.is_empty() {
        return Some(Err("NoLocalTimeType"));
    }
    for (k, &(t, i)) in z.trans.iter().enumerate() {
        if i >= z.types.len() {
            return Some(Err("InvalidLocalTimeTypeIndex"));
        }
        if k + 1 < z.trans.len() && t >= z.trans[k + 1].0 {
            return Some(Err("InvalidTransition"));
        }
    }
    if !oleap::valid_table(&z.leaps) {
        return Some(Err("InvalidLeapSecond"));
    }
    if let (Some(&(t_last, i_last)), tr) = (z.trans.last(), &z.trailer) {
        if !matches!(tr, MTrailer::None) {
            if t_last == i64::MIN {
                return None;
            }
            let u = match oleap::g(&z.leaps, t_last) {
                Some(u) => u,
                None => return None,
            };
            let m = ZoneModel::new(z);
            match m.trailer_at(u) {
                Fwd::Type(t) => {
                    if m.ltt(t) != &z.types[i_last] {
                        return Some(Err("InconsistentExtraRule"));
                    }
                }
                _ => return None,
            }
        }
    }
    Some(Ok(()))
}
