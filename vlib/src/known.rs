//! known_findings.json: findings recorded (not repaired) and repaired ones ("fixed:").
//! Read-only at run time.
use serde::Deserialize;

#[derive(Debug, Clone, Deserialize)]
pub struct Entry {
    /// "known" or "fixed"
    pub status: String,
    pub property: String,
    /// signature id implemented as a predicate in vlib (for known findings)
    #[serde(default)]
    pub signature: String,
    /// the line to print / the record line
    pub line: String,
    #[serde(default)]
    pub input: serde_json::Value,
}

#[derive(Debug, Clone, Deserialize, Default)]
pub struct KnownFindings {
    pub entries: Vec<Entry>,
}

pub fn load() -> KnownFindings {
    let p = crate::run::verif_dir().join("known_findings.json");
    match std::fs::read_to_string(&p) {
        Ok(s) => serde_json::from_str(&s).unwrap_or_else(|e| {
            eprintln!("known_findings.json unreadable: {e}");
            std::process::exit(2)
        }),
        Err(_) => KnownFindings::default(),
    }
}

impl KnownFindings {
    pub fn known_for<'a>(&'a self, property: &'a str) -> impl Iterator<Item = &'a Entry> + 'a {
        self.entries.iter().filter(move |e| e.status == "known" && e.property == property)
    }
    pub fn has_signature(&self, property: &str, sig: &str) -> bool {
        self.known_for(property).any(|e| e.signature == sig)
    }
}
