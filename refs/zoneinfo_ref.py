#!/usr/bin/env python3
"""Reference server for C10: CPython's zoneinfo on a TZif file (ZoneInfo.from_file). Same protocol as glibc_ref.c
(F / Q / M); answers to Q are "<utcoffset seconds> <tzname>"."""
import sys
from datetime import datetime, timezone, timedelta
from zoneinfo import ZoneInfo

EPOCH = datetime(1970, 1, 1, tzinfo=timezone.utc)

def main():
    zi = None
    out = []
    w = sys.stdout.write
    for line in sys.stdin:
        line = line.rstrip('\n')
        if line.startswith('F '):
            with open(line[2:], 'rb') as f:
                zi = ZoneInfo.from_file(f, key='x')
        elif line.startswith('Q '):
            t = int(line[2:])
            try:
                dt = (EPOCH + timedelta(seconds=t)).astimezone(zi)
                off = dt.utcoffset()
                w(f"{off.days * 86400 + off.seconds} {dt.tzname()}\n")
            except (OverflowError, ValueError, OSError):
                w("ERR\n")
        elif line.startswith('M '):
            parts = line[2:].split()
            L = int(parts[0])
            found = set()
            for o in parts[1:]:
                o = int(o)
                u = L - o
                try:
                    dt = (EPOCH + timedelta(seconds=u)).astimezone(zi)
                    off = dt.utcoffset()
                    if off.days * 86400 + off.seconds == o:
                        found.add(u)
                except (OverflowError, ValueError, OSError):
                    pass
            w(' '.join(str(u) for u in sorted(found)) + '\n' if found else '-\n')

main()
