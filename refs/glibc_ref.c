/* Reference server for C10: the C library's localtime_r on a TZif file (TZ=:/abs/path) or on a POSIX TZ string.
 * Protocol (one command per line on stdin, one answer line per Q/M on stdout):
 *   F <abs path>            load a TZif file
 *   T <tz string>           use a POSIX TZ description
 *   Q <t>                   -> "<gmtoff> <isdst> <abbr> <Y> <M> <D> <h> <m> <s>"
 *   M <L> <o1> <o2> ...     -> instants u = L - o (ascending) at which the zone shows civil second count L with offset o, or "-"
 */
#define _GNU_SOURCE
#include <stdio.h>
#include <stdlib.h>
#include <string.h>
#include <time.h>

static int cmp(const void *a, const void *b) {
    long long x = *(const long long *)a, y = *(const long long *)b;
    return x < y ? -1 : x > y;
}

int main(void) {
    static char line[1 << 16];
    static char env[1 << 16];
    while (fgets(line, sizeof line, stdin)) {
        size_t n = strlen(line);
        while (n && (line[n - 1] == '\n' || line[n - 1] == '\r')) line[--n] = 0;
        if (line[0] == 'F' && line[1] == ' ') {
            snprintf(env, sizeof env, ":%s", line + 2);
            setenv("TZ", env, 1);
            tzset();
        } else if (line[0] == 'T' && line[1] == ' ') {
            setenv("TZ", line + 2, 1);
            tzset();
        } else if (line[0] == 'Q' && line[1] == ' ') {
            time_t t = (time_t)strtoll(line + 2, NULL, 10);
            struct tm tm;
            memset(&tm, 0, sizeof tm);
            if (!localtime_r(&t, &tm)) {
                printf("ERR\n");
                continue;
            }
            printf("%ld %d %s %d %d %d %d %d %d\n", tm.tm_gmtoff, tm.tm_isdst, tm.tm_zone ? tm.tm_zone : "?", tm.tm_year + 1900, tm.tm_mon + 1, tm.tm_mday, tm.tm_hour, tm.tm_min, tm.tm_sec);
        } else if (line[0] == 'M' && line[1] == ' ') {
            char *p = line + 2;
            long long L = strtoll(p, &p, 10);
            long long found[64];
            int nf = 0;
            while (*p) {
                char *q;
                long long o = strtoll(p, &q, 10);
                if (q == p) break;
                p = q;
                time_t u = (time_t)(L - o);
                struct tm tm;
                memset(&tm, 0, sizeof tm);
                if (localtime_r(&u, &tm) && tm.tm_gmtoff == o && nf < 64) {
                    int dup = 0;
                    for (int i = 0; i < nf; i++) dup |= found[i] == (long long)u;
                    if (!dup) found[nf++] = (long long)u;
                }
            }
            if (!nf) {
                printf("-\n");
                continue;
            }
            qsort(found, nf, sizeof found[0], cmp);
            for (int i = 0; i < nf; i++) printf(i ? " %lld" : "%lld", found[i]);
            printf("\n");
        }
    }
    return 0;
}
