//! C19 probe logic usable without the standard library and without an allocator (core + tz-rs with no features only).
//! Included verbatim by the no_std static library (nostdprobe) and by the std harness; the two transcripts must be identical.
use core::fmt::{self, Write};
use tz::datetime::{DateTime, FoundDateTimeKind, UtcDateTime};
use tz::timezone::{AlternateTime, LeapSecond, LocalTimeType, MonthWeekDay, RuleDay, TimeZoneRef, Transition, TransitionRule};

/// i64 values per record: [kind, zone, a, b, c, d, e, f, g, h]
pub const REC: usize = 10;

pub fn run_records(input: &[i64], w: &mut dyn Write) -> fmt::Result {
    for rec in input.chunks_exact(REC) {
        run_one(rec, w)?;
        w.write_char('\n')?;
    }
    Ok(())
}

macro_rules! ok_or_line {
    ($w:expr, $e:expr) => {
        match $e {
            Ok(x) => x,
            Err(e) => return write!($w, "SETUP-ERR {e:?}"),
        }
    };
}

fn clamp_off(v: i64) -> i32 {
    (v.rem_euclid(2 * 86_399 + 1) - 86_399) as i32
}

fn run_one(rec: &[i64], w: &mut dyn Write) -> fmt::Result {
    let est = ok_or_line!(w, LocalTimeType::new(-18_000, false, Some(b"EST")));
    let edt = ok_or_line!(w, LocalTimeType::new(-14_400, true, Some(b"EDT")));
    let ist = ok_or_line!(w, LocalTimeType::new(3_600, false, Some(b"IST")));
    let gmt = ok_or_line!(w, LocalTimeType::new(0, true, Some(b"GMT")));
    let pa = ok_or_line!(w, LocalTimeType::new(clamp_off(rec[8]), false, Some(b"AAA")));
    let pb = ok_or_line!(w, LocalTimeType::new(clamp_off(rec[9]), true, Some(b"BBBB")));
    let m32 = RuleDay::MonthWeekDay(ok_or_line!(w, MonthWeekDay::new(3, 2, 0)));
    let m111 = RuleDay::MonthWeekDay(ok_or_line!(w, MonthWeekDay::new(11, 1, 0)));
    let m105 = RuleDay::MonthWeekDay(ok_or_line!(w, MonthWeekDay::new(10, 5, 0)));
    let m35 = RuleDay::MonthWeekDay(ok_or_line!(w, MonthWeekDay::new(3, 5, 0)));
    let us = Some(TransitionRule::Alternate(ok_or_line!(w, AlternateTime::new(est, edt, m32, 7_200, m111, 7_200))));
    let dublin = Some(TransitionRule::Alternate(ok_or_line!(w, AlternateTime::new(ist, gmt, m105, 7_200, m35, 3_600))));
    let fixed_b = Some(TransitionRule::Fixed(pb));
    let none = None;
    let us_types = [est, edt];
    let us_trans = [Transition::new(-84_387_600, 1), Transition::new(-68_666_400, 0), Transition::new(0, 0)];
    let du_types = [ist, gmt];
    let p_types = [pa, pb];
    let p_trans = [Transition::new(100_000_000, 1)];
    let leaps = [LeapSecond::new(78_796_800, 1), LeapSecond::new(94_694_401, 2), LeapSecond::new(126_230_402, 3)];
    let zone = match rec[1].rem_euclid(6) {
        0 => Ok(TimeZoneRef::utc()),
        1 => TimeZoneRef::new(&us_trans, &us_types, &[], &us),
        2 => TimeZoneRef::new(&[], &du_types, &[], &dublin),
        3 => TimeZoneRef::new(&p_trans, &p_types, &leaps, &fixed_b),
        4 => TimeZoneRef::new(&p_trans, &p_types, &[], &none),
        _ => match AlternateTime::new(pa, pb, m32, 7_200, m111, 7_200) {
            Ok(r) => {
                // the rule lives in this arm only: evaluate the record right here
                let rule = Some(TransitionRule::Alternate(r));
                return match TimeZoneRef::new(&[], &p_types, &[], &rule) {
                    Ok(zr) => body(rec, zr, w),
                    Err(e) => write!(w, "ZONE-ERR {e:?}"),
                };
            }
            Err(e) => return write!(w, "RULE-ERR {e:?}"),
        },
    };
    match zone {
        Ok(zr) => body(rec, zr, w),
        Err(e) => write!(w, "ZONE-ERR {e:?}"),
    }
}

fn dt(w: &mut dyn Write, d: &DateTime) -> fmt::Result {
    write!(w, "{d}|{}|{}|{}|{}|{}|{}|{}", d.unix_time(), d.nanoseconds(), d.week_day(), d.year_day(), d.local_time_type().ut_offset(), d.local_time_type().is_dst(), d.local_time_type().time_zone_designation())
}

fn kind(w: &mut dyn Write, k: &FoundDateTimeKind) -> fmt::Result {
    match k {
        FoundDateTimeKind::Normal(d) => {
            w.write_str("[N ")?;
            dt(w, d)?;
            w.write_str("]")
        }
        FoundDateTimeKind::Skipped { before_transition, after_transition } => {
            w.write_str("[S ")?;
            dt(w, before_transition)?;
            w.write_str(" -> ")?;
            dt(w, after_transition)?;
            w.write_str("]")
        }
    }
}

fn body(rec: &[i64], zr: TimeZoneRef<'_>, w: &mut dyn Write) -> fmt::Result {
    match rec[0].rem_euclid(3) {
        0 => {
            let (t, ns) = (rec[2], rec[3] as u32);
            w.write_str("I ")?;
            match DateTime::from_timespec(t, ns, zr) {
                Ok(d) => {
                    dt(w, &d)?;
                    match d.project(TimeZoneRef::utc()) {
                        Ok(p) => write!(w, " P{p}")?,
                        Err(e) => write!(w, " P{e:?}")?,
                    }
                    write!(w, " W{d:>50}|{d:.3}")?;
                }
                Err(e) => write!(w, "{e:?}")?,
            }
            match UtcDateTime::from_timespec(t, ns) {
                Ok(u) => write!(w, " U{u}|{}|{}", u.week_day(), u.year_day())?,
                Err(e) => write!(w, " U{e:?}")?,
            }
            match zr.find_local_time_type(t) {
                Ok(l) => write!(w, " L{}|{}", l.ut_offset(), l.is_dst()),
                Err(e) => write!(w, " L{e:?}"),
            }
        }
        1 => {
            let (y, mo, d, h, mi, s) = (rec[2] as i32, rec[3] as u8, rec[4] as u8, rec[5] as u8, rec[6] as u8, rec[7] as u8);
            let n = rec[8].rem_euclid(4) as usize;
            let mut store: [Option<FoundDateTimeKind>; 3] = [None; 3];
            // a reused buffer: the previous search's entries are still in it
            if rec[9] % 2 != 0 {
                let _ = DateTime::find_n(&mut store, 2021, 11, 7, 1, 30, 0, 0, zr);
            }
            let buf = &mut store[..n];
            write!(w, "F {y}-{mo}-{d}T{h}:{mi}:{s} n={n} ")?;
            match DateTime::find_n(buf, y, mo, d, h, mi, s, 7, zr) {
                Ok(l) => {
                    write!(w, "{}|{}|", l.count(), l.is_exhaustive())?;
                    for k in l.data().iter().flatten() {
                        kind(w, k)?;
                    }
                    match l.unique() {
                        Some(u) => write!(w, " u={}", u.unix_time())?,
                        None => w.write_str(" u=-")?,
                    }
                }
                Err(e) => write!(w, "{e:?}")?,
            }
            w.write_str(" B")?;
            for slot in store.iter() {
                match slot {
                    Some(k) => kind(w, k)?,
                    None => w.write_str("-")?,
                }
            }
            match DateTime::new(y, mo, d, h, mi, s, 7, *zr.local_time_types().first().unwrap_or(&LocalTimeType::utc())) {
                Ok(x) => {
                    w.write_str(" N")?;
                    dt(w, &x)
                }
                Err(e) => write!(w, " N{e:?}"),
            }
        }
        _ => {
            let n = rec[2] as i128 * 1_000_000_000 + rec[3] as i128;
            w.write_str("T ")?;
            match DateTime::from_total_nanoseconds(n, zr) {
                Ok(d) => {
                    dt(w, &d)?;
                    write!(w, " {}", d.total_nanoseconds())?;
                }
                Err(e) => write!(w, "{e:?}")?,
            }
            match UtcDateTime::from_total_nanoseconds(n) {
                Ok(u) => write!(w, " U{u}"),
                Err(e) => write!(w, " U{e:?}"),
            }
        }
    }
}
