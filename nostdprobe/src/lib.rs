#![no_std]
//! See Cargo.toml. The probe logic (probe_core.rs) is shared verbatim with the std harness (vlib/src/props/c19.rs includes the same file).
mod probe_core;

use core::fmt::Write;

extern "C" {
    fn abort() -> !;
}

#[panic_handler]
fn panic(_: &core::panic::PanicInfo) -> ! {
    unsafe { abort() }
}

struct Buf {
    p: *mut u8,
    cap: usize,
    len: usize,
}

impl Write for Buf {
    fn write_str(&mut self, s: &str) -> core::fmt::Result {
        if s.len() > self.cap - self.len {
            return Err(core::fmt::Error);
        }
        unsafe { core::ptr::copy_nonoverlapping(s.as_ptr(), self.p.add(self.len), s.len()) };
        self.len += s.len();
        Ok(())
    }
}

/// Runs `n` i64 values (records of probe_core::REC values each) and writes one text line per record; returns the number of bytes
/// written, or usize::MAX when `cap` was too small.
///
/// # Safety
/// `input` must point to `n` readable i64 values and `out` to `cap` writable bytes.
#[no_mangle]
pub unsafe extern "C" fn tzprobe_run(input: *const i64, n: usize, out: *mut u8, cap: usize) -> usize {
    let recs = core::slice::from_raw_parts(input, n);
    let mut w = Buf { p: out, cap, len: 0 };
    match probe_core::run_records(recs, &mut w) {
        Ok(()) => w.len,
        Err(_) => usize::MAX,
    }
}
