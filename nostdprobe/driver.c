/* C19 no_std probe driver: reads binary i64 records from argv[1], prints the transcript produced by the no_std static library. */
#include <stdint.h>
#include <stdio.h>
#include <stdlib.h>
/* the precompiled libcore carries unwind tables naming this symbol; with panic=abort it is never called */
void rust_eh_personality(void) {}
size_t tzprobe_run(const int64_t *input, size_t n, unsigned char *out, size_t cap);
int main(int argc, char **argv) {
    if (argc < 2) return 2;
    FILE *f = fopen(argv[1], "rb");
    if (!f) return 2;
    fseek(f, 0, SEEK_END);
    long sz = ftell(f);
    fseek(f, 0, SEEK_SET);
    int64_t *in = malloc(sz > 0 ? sz : 8);
    if (fread(in, 1, sz, f) != (size_t)sz) return 2;
    size_t n = sz / 8;
    size_t cap = n * 200 + 4096;
    unsigned char *out = malloc(cap);
    size_t k = tzprobe_run(in, n, out, cap);
    if (k == (size_t)-1) return 3;
    fwrite(out, 1, k, stdout);
    return 0;
}
