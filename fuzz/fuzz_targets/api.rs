#![no_main]
use libfuzzer_sys::fuzz_target;

#[global_allocator]
static ALLOC: vlib::alloccount::Counting = vlib::alloccount::Counting;

fuzz_target!(|data: &[u8]| {
    if let Err(m) = vlib::fuzz_entry::api(data) {
        panic!("C07/api oracle violated: {m}");
    }
});
