#!/usr/bin/env bash
# MANIFEST.setup_cmd: build everything from files on disk, offline.
set -eu
cd "$(dirname "$0")"
export CARGO_NET_OFFLINE=true
mkdir -p build evidence replays
( cd vlib && cargo build --release --offline --bin vcheck )
echo "setup ok"
