#!/usr/bin/env bash
# MANIFEST.setup_cmd: build everything from files on disk, offline.
set -eu
cd "$(dirname "$0")"
export CARGO_NET_OFFLINE=true
mkdir -p build evidence replays
( cd data && sha256sum -c --quiet tzdata.tar.gz.sha256 )
rm -rf build/zoneinfo && mkdir -p build/zoneinfo && tar xzf data/tzdata.tar.gz -C build/zoneinfo
( cd vlib && cargo build --release --offline --bin vcheck )
gcc -O2 -o build/glibc_ref refs/glibc_ref.c
for f in "--no-default-features" "--no-default-features --features alloc" ""; do ( cd autotraits && cargo +nightly build --offline $f ); done
( cd nostdprobe && cargo build --release --offline --target-dir /verif/target/nostdprobe )
for cfg in none alloc std; do f=""; [ $cfg != none ] && f="--features $cfg"; ( cd cfgprobe && cargo build --release --offline --no-default-features $f --target-dir /verif/target/cfgprobe-$cfg ); done
( cd vlib && cargo build --profile nochecks --offline --bin vcheck )
( cd fuzz && cargo +nightly fuzz build -s none --fuzz-dir . )
echo "setup ok"
