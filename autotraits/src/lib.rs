//! Compile-time half of C15: every public type is Send + Sync + 'static, and Freeze (no interior mutability outside of indirection).
//! Built with the nightly toolchain (core::marker::Freeze is unstable). If vlib builds but this crate does not, C15 is violated.
//! Built three times: tz-rs without features, with `alloc`, with `alloc` + `std` — the public types of every configuration
//! must be shareable (C15-r9m2 relaxed the boxed error to `dyn Error` without `Send + Sync` in the alloc-only configuration).
#![no_std]
#![feature(freeze)]
use core::marker::Freeze;

fn shared<T: Send + Sync + 'static>() {}
fn frozen<T: Freeze>() {}

macro_rules! all {
    ($name:ident: $($t:ty),* $(,)?) => {
        pub fn $name() {
            $( shared::<$t>(); frozen::<$t>(); )*
        }
    };
}

all!(assert_all:
    tz::UtcDateTime,
    tz::DateTime,
    tz::datetime::FoundDateTimeKind,
    tz::TimeZoneRef<'static>,
    tz::LocalTimeType,
    tz::timezone::Transition,
    tz::timezone::LeapSecond,
    tz::timezone::TransitionRule,
    tz::timezone::AlternateTime,
    tz::timezone::RuleDay,
    tz::timezone::Julian1WithoutLeap,
    tz::timezone::Julian0WithLeap,
    tz::timezone::MonthWeekDay,
    tz::TzError,
    tz::error::datetime::DateTimeError,
    tz::error::timezone::LocalTimeTypeError,
    tz::error::timezone::TimeZoneError,
    tz::error::timezone::TransitionRuleError,
);

#[cfg(feature = "alloc")]
all!(assert_all_alloc:
    tz::datetime::FoundDateTimeList,
    tz::TimeZone,
    tz::TimeZoneSettings<'static>,
    tz::error::parse::TzFileError,
    tz::error::parse::TzStringError,
    tz::error::parse::ParseDataError,
);

/// FoundDateTimeListRefMut borrows the caller's buffer mutably: Send + Sync (not 'static).
pub fn assert_refmut<'a>() {
    fn s<T: Send + Sync>() {}
    s::<tz::datetime::FoundDateTimeListRefMut<'a>>();
    frozen::<tz::datetime::FoundDateTimeListRefMut<'a>>();
}

/// tz::Error carries a boxed dyn Error + Send + Sync.
pub fn assert_error() {
    shared::<tz::Error>();
}
