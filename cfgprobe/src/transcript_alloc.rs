//! C19, alloc tier: the part of the transcript that uses API available with `alloc` and with `std` (owned zones, TZif decoding,
//! TZ-value resolution through settings with an injected read function). Compiled into the probe only when its `alloc` feature is on.
use super::transcript::{ARes, PCase};
use std::cell::RefCell;
use std::collections::BTreeMap;
use tz::timezone::{TimeZone, TimeZoneSettings};

thread_local! {
    static VFS: RefCell<BTreeMap<String, Option<Vec<u8>>>> = const { RefCell::new(BTreeMap::new()) };
    static LOG: RefCell<Vec<String>> = const { RefCell::new(Vec::new()) };
}

fn read(path: &str) -> Result<Vec<u8>, Box<dyn std::error::Error + Send + Sync + 'static>> {
    LOG.with(|l| l.borrow_mut().push(path.to_string()));
    VFS.with(|v| match v.borrow().get(path) {
        Some(Some(b)) => Ok(b.clone()),
        Some(None) => Err(Box::new(std::io::Error::new(std::io::ErrorKind::PermissionDenied, "denied")) as Box<dyn std::error::Error + Send + Sync>),
        None => Err(Box::new(std::io::Error::new(std::io::ErrorKind::NotFound, "absent")) as Box<dyn std::error::Error + Send + Sync>),
    })
}

fn one(r: &ARes, out: &mut String) {
    VFS.with(|v| {
        let mut m = v.borrow_mut();
        m.clear();
        for (p, c) in &r.files {
            m.insert(p.clone(), c.clone());
        }
    });
    let dirs: Vec<&str> = r.dirs.iter().map(|s| s.as_str()).collect();
    let settings = TimeZoneSettings::new(&dirs, read);
    LOG.with(|l| l.borrow_mut().clear());
    let got = settings.parse_posix_tz(&r.tz);
    let log = LOG.with(|l| l.borrow().clone());
    out.push_str(&format!("R{log:?}|{};", match got { Ok(z) => format!("{z:?}"), Err(e) => format!("E{e:?}") }));
    LOG.with(|l| l.borrow_mut().clear());
    let got = settings.parse_local();
    let log = LOG.with(|l| l.borrow().clone());
    out.push_str(&format!("L{log:?}|{};", match got { Ok(z) => format!("{z:?}"), Err(e) => format!("E{e:?}") }));
}

pub fn transcript_alloc(c: &PCase) -> String {
    let mut out = String::new();
    for r in &c.ares {
        one(r, &mut out);
    }
    for f in &c.afiles {
        match TimeZone::from_tz_data(f) {
            Ok(z) => {
                out.push_str(&format!("D{z:?}"));
                // the owned zone answers like its borrowed view
                for t in z.as_ref().transitions().iter().take(3) {
                    out.push_str(&format!("|{:?}", z.find_local_time_type(t.unix_leap_time())));
                }
                out.push_str(&format!("|{:?}|{:?};", z.find_local_time_type(0), TimeZone::fixed(z.as_ref().local_time_types()[0].ut_offset()).map(|f| f == z)));
            }
            Err(e) => out.push_str(&format!("DE{e:?};")),
        }
    }
    out
}
