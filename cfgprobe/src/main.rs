//! cfgprobe <corpus.json>: prints one transcript line per case. Built three times: tz-rs with features {}, {alloc}, {alloc,std}.
mod transcript;
#[cfg(feature = "alloc")]
mod transcript_alloc;

fn main() {
    let path = std::env::args().nth(1).expect("usage: cfgprobe <corpus.json>");
    let text = std::fs::read_to_string(&path).expect("corpus");
    let cases: Vec<transcript::PCase> = serde_json::from_str(&text).expect("corpus json");
    let mut out = String::new();
    for c in &cases {
        out.push_str(&transcript::transcript(c));
        #[cfg(feature = "alloc")]
        {
            out.push_str("\t#A");
            out.push_str(&transcript_alloc::transcript_alloc(c));
        }
        out.push('\n');
    }
    print!("{out}");
}
