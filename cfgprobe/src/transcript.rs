// Shared between the three feature-configuration probes (cfgprobe) and the harness (vlib includes this file):
// a deterministic transcript of the allocation-free API on one case. Uses only API that exists without the `alloc` feature;
// rendering goes through a fixed-size fmt::Write buffer.

use core::fmt::Write as _;
use tz::datetime::{DateTime, FoundDateTimeKind, UtcDateTime};
use tz::timezone::{AlternateTime, Julian0WithLeap, Julian1WithoutLeap, LeapSecond, LocalTimeType, MonthWeekDay, RuleDay, TimeZoneRef, Transition, TransitionRule};

#[derive(Debug, Clone, serde::Serialize, serde::Deserialize)]
pub struct PLtt {
    pub off: i32,
    pub dst: bool,
    pub name: Option<String>,
}

#[derive(Debug, Clone, serde::Serialize, serde::Deserialize)]
pub enum PDay {
    J1(u16),
    J0(u16),
    M(u8, u8, u8),
}

#[derive(Debug, Clone, serde::Serialize, serde::Deserialize)]
pub struct PRule {
    pub std: PLtt,
    pub dst: PLtt,
    pub start: PDay,
    pub start_time: i32,
    pub end: PDay,
    pub end_time: i32,
}

#[derive(Debug, Clone, serde::Serialize, serde::Deserialize)]
pub enum PTrailer {
    None,
    Fixed(PLtt),
    Alt(PRule),
}

#[derive(Debug, Clone, serde::Serialize, serde::Deserialize)]
pub struct PZone {
    pub trans: Vec<(i64, usize)>,
    pub types: Vec<PLtt>,
    pub leaps: Vec<(i64, i32)>,
    pub trailer: PTrailer,
}

#[derive(Debug, Clone, serde::Serialize, serde::Deserialize)]
pub struct PCase {
    pub zone: PZone,
    pub instants: Vec<(i64, u32)>,
    /// (year, month, day, hour, minute, second, nanoseconds)
    pub civils: Vec<(i32, u8, u8, u8, u8, u8, u32)>,
    /// total nanosecond counts as decimal strings
    pub nanos: Vec<String>,
    pub buf_len: usize,
    /// alloc tier (API that exists with `alloc` and with `std`): TZ values resolved through settings over an in-memory file system
    #[serde(default)]
    pub ares: Vec<ARes>,
    /// alloc tier: TZif files to decode
    #[serde(default)]
    pub afiles: Vec<Vec<u8>>,
}

#[derive(Debug, Clone, Default, serde::Serialize, serde::Deserialize)]
pub struct ARes {
    pub tz: String,
    pub dirs: Vec<String>,
    /// path -> contents; None = the file exists but cannot be read (typed I/O error)
    pub files: Vec<(String, Option<Vec<u8>>)>,
}

struct Buf {
    b: [u8; 1024],
    n: usize,
}
impl core::fmt::Write for Buf {
    fn write_str(&mut self, s: &str) -> core::fmt::Result {
        let bytes = s.as_bytes();
        if self.n + bytes.len() > self.b.len() {
            return Err(core::fmt::Error);
        }
        self.b[self.n..self.n + bytes.len()].copy_from_slice(bytes);
        self.n += bytes.len();
        Ok(())
    }
}
fn fixed(f: impl FnOnce(&mut Buf) -> core::fmt::Result) -> String {
    let mut b = Buf { b: [0; 1024], n: 0 };
    match f(&mut b) {
        Ok(()) => String::from_utf8_lossy(&b.b[..b.n]).to_string(),
        Err(_) => "<fmt error>".to_string(),
    }
}

fn ltt(l: &PLtt) -> Result<LocalTimeType, tz::TzError> {
    Ok(LocalTimeType::new(l.off, l.dst, l.name.as_ref().map(|s| s.as_bytes()))?)
}
fn day(d: &PDay) -> Result<RuleDay, tz::TzError> {
    Ok(match *d {
        PDay::J1(n) => RuleDay::Julian1WithoutLeap(Julian1WithoutLeap::new(n)?),
        PDay::J0(n) => RuleDay::Julian0WithLeap(Julian0WithLeap::new(n)?),
        PDay::M(m, w, dd) => RuleDay::MonthWeekDay(MonthWeekDay::new(m, w, dd)?),
    })
}

fn dt(d: &DateTime) -> String {
    fixed(|b| write!(b, "{d}|{}|{}|{}|{}|{}|{:?}|{:>44}|{:.10}|{:*^50}|{:*^51}|{:<3}|{:#^47.12}", d.unix_time(), d.nanoseconds(), d.week_day(), d.year_day(), d.total_nanoseconds(), d.local_time_type(), d, d, d, d, d, d))
}

fn kind(k: &Option<FoundDateTimeKind>) -> String {
    match k {
        None => "-".to_string(),
        Some(FoundDateTimeKind::Normal(d)) => format!("N[{}]", dt(d)),
        Some(FoundDateTimeKind::Skipped { before_transition, after_transition }) => format!("S[{}][{}]", dt(before_transition), dt(after_transition)),
    }
}

pub fn transcript(c: &PCase) -> String {
    let mut out = String::new();
    let mut types = Vec::new();
    for t in &c.zone.types {
        match ltt(t) {
            Ok(t) => types.push(t),
            Err(e) => {
                out.push_str(&format!("type error {e:?};"));
                return out;
            }
        }
    }
    let transitions: Vec<Transition> = c.zone.trans.iter().map(|&(t, i)| Transition::new(t, i)).collect();
    let leaps: Vec<LeapSecond> = c.zone.leaps.iter().map(|&(t, k)| LeapSecond::new(t, k)).collect();
    let rule: Option<TransitionRule> = match &c.zone.trailer {
        PTrailer::None => None,
        PTrailer::Fixed(l) => match ltt(l) {
            Ok(l) => Some(TransitionRule::Fixed(l)),
            Err(e) => {
                out.push_str(&format!("fixed error {e:?};"));
                return out;
            }
        },
        PTrailer::Alt(r) => {
            let made = (|| -> Result<AlternateTime, tz::TzError> { Ok(AlternateTime::new(ltt(&r.std)?, ltt(&r.dst)?, day(&r.start)?, r.start_time, day(&r.end)?, r.end_time)?) })();
            match made {
                Ok(a) => {
                    out.push_str(&format!("rule {a:?};"));
                    Some(TransitionRule::Alternate(a))
                }
                Err(e) => {
                    out.push_str(&format!("rule error {e:?};"));
                    return out;
                }
            }
        }
    };
    let zr = match TimeZoneRef::new(&transitions, &types, &leaps, &rule) {
        Ok(z) => z,
        Err(e) => {
            out.push_str(&format!("zone error {e:?};"));
            return out;
        }
    };
    out.push_str(&format!("zone ok {} {} {};", zr.transitions().len(), zr.local_time_types().len(), zr.leap_seconds().len()));
    for &(u, ns) in &c.instants {
        out.push_str(&format!("L{:?};", zr.find_local_time_type(u)));
        match DateTime::from_timespec(u, ns, zr) {
            Ok(d) => {
                out.push_str(&format!("D{};", dt(&d)));
                out.push_str(&format!("P{:?};", d.project(TimeZoneRef::utc()).map(|p| dt(&p))));
            }
            Err(e) => out.push_str(&format!("D{e:?};")),
        }
        match UtcDateTime::from_timespec(u, ns) {
            Ok(x) => out.push_str(&format!("U{}|{}|{}|{}|{};", fixed(|b| write!(b, "{x}|{x:>40}|{x:.7}")), x.unix_time(), x.week_day(), x.year_day(), x.total_nanoseconds())),
            Err(e) => out.push_str(&format!("U{e:?};")),
        }
        if let Some(t) = types.first() {
            out.push_str(&format!("T{:?};", DateTime::from_timespec_and_local(u, ns, *t).map(|d| dt(&d))));
        }
    }
    for &(y, mo, d, h, mi, s, ns) in &c.civils {
        out.push_str(&format!("C{:?};", UtcDateTime::new(y, mo, d, h, mi, s, ns).map(|x| (x.unix_time(), fixed(|b| write!(b, "{x}"))))));
        if let Some(t) = types.last() {
            out.push_str(&format!("N{:?};", DateTime::new(y, mo, d, h, mi, s, ns, *t).map(|x| dt(&x))));
        }
        let mut buf = vec![None; c.buf_len];
        match DateTime::find_n(&mut buf, y, mo, d, h, mi, s, ns, zr) {
            Ok(l) => {
                out.push_str(&format!("F{}|{}|{:?}|{:?}|{:?}|", l.count(), l.is_exhaustive(), l.unique().map(|d| dt(&d)), l.earliest().map(|d| dt(&d)), l.latest().map(|d| dt(&d))));
                for k in l.data() {
                    out.push_str(&kind(k));
                }
                out.push(';');
            }
            Err(e) => out.push_str(&format!("F{e:?};")),
        }
        // what the call left in the caller's buffer (after a success and after a refusal alike) is an observable effect
        out.push('B');
        for slot in &buf {
            out.push_str(&kind(slot));
        }
        out.push(';');
    }
    for n in &c.nanos {
        if let Ok(v) = n.parse::<i128>() {
            out.push_str(&format!("G{:?};", UtcDateTime::from_total_nanoseconds(v).map(|x| (x.unix_time(), x.nanoseconds()))));
            out.push_str(&format!("H{:?};", DateTime::from_total_nanoseconds(v, zr).map(|x| dt(&x))));
        }
    }
    out
}

/// The allocation-free API surface BY NAME: every type a user of the feature-less crate may have to spell in a signature or a struct
/// field (not only obtain by inference) must be exported in every configuration. Never constructed; it only has to compile in all
/// three probe builds and in the harness (seeded change C19-r12m1 moved one re-export behind `alloc`).
#[allow(dead_code)]
pub struct Surface<'a> {
    pub list: Option<tz::datetime::FoundDateTimeListRefMut<'a>>,
    pub kind: Option<tz::datetime::FoundDateTimeKind>,
    pub dt: Option<(tz::DateTime, tz::datetime::DateTime, tz::UtcDateTime, tz::datetime::UtcDateTime)>,
    pub zone: Option<(tz::TimeZoneRef<'a>, tz::timezone::TimeZoneRef<'a>, tz::LocalTimeType, tz::timezone::LocalTimeType)>,
    pub parts: Option<(tz::timezone::Transition, tz::timezone::LeapSecond, tz::timezone::TransitionRule, tz::timezone::AlternateTime)>,
    pub days: Option<(tz::timezone::RuleDay, tz::timezone::Julian0WithLeap, tz::timezone::Julian1WithoutLeap, tz::timezone::MonthWeekDay)>,
    pub errs: Option<(tz::Error, tz::TzError, tz::error::Error, tz::error::TzError, tz::error::datetime::DateTimeError, tz::error::timezone::LocalTimeTypeError, tz::error::timezone::TimeZoneError, tz::error::timezone::TransitionRuleError)>,
}
