#!/usr/bin/env bash
# C07 driver: libFuzzer campaigns (3 targets) + structured enumeration / corpus replay in two build configurations.
# Called by ./check after the checked vcheck binary was built. Same contract: exit 0 / exit 1 + VIOLATION line / exit 2 inconclusive.
set -u
cd /verif
export CARGO_NET_OFFLINE=true
ID="$1"; shift
TIER="${VERIF_TIER:-quick}"; REPLAY=""
while [ $# -gt 0 ]; do
  case "$1" in
    --tier) TIER="$2"; shift 2;;
    --replay) REPLAY="$2"; shift 2;;
    *) echo "usage: ./check C07 [--tier quick|thorough] [--replay FILE]" >&2; exit 2;;
  esac
done
SEED="${VERIF_SEED:-0}"
mkdir -p build replays/C07 build/c07-journal

journal_violation() {  # $1 = profile tag; an abnormal exit (abort / signal) of vcheck: turn the journals into a replay file
  local out="replays/C07/journal-$1-$(date +%s).json"
  python3 - "$1" "$out" <<'PY'
import glob, json, sys
ids=[open(f).read().strip() for f in sorted(glob.glob(f'/verif/build/c07-journal/{sys.argv[1]}-*.txt'))]
ids=[i for i in ids if i and i!='done']
json.dump({"property":"C07","kind":"journal","summary":"the process died (abort / signal) while executing one of these cases","case":{"ids":ids}}, open(sys.argv[2],'w'))
PY
  echo "FAILURE property=C07 kind=journal : vcheck ($1 build) terminated abnormally (abort, allocation failure or stack overflow)"
  echo "VIOLATION property=C07 replay=/verif/$out"
}

if [ -n "$REPLAY" ]; then
  ./target/release/vcheck C07 --replay "$REPLAY"; rc=$?
  if [ $rc -gt 2 ]; then
    echo "REPLAY-FAIL property=C07: process terminated abnormally (exit $rc)"
    echo "VIOLATION property=C07 replay=$REPLAY"; exit 1
  fi
  if [ $rc -eq 0 ] && [ -x target/nochecks/vcheck ]; then
    ./target/nochecks/vcheck C07 --replay "$REPLAY"; rc=$?
    if [ $rc -gt 2 ]; then echo "VIOLATION property=C07 replay=$REPLAY"; exit 1; fi
  fi
  exit $rc
fi

# builds -------------------------------------------------------------------------------------------------
( cd fuzz && flock /verif/build/.cargo-fuzz.lock cargo +nightly fuzz build -s none --fuzz-dir . ) > build/c07-fuzz-build.log 2>&1 || {
  echo "INCONCLUSIVE property=C07: fuzz targets do not build against /repo's current tree (see build/c07-fuzz-build.log)" >&2; tail -5 build/c07-fuzz-build.log >&2; exit 2; }
( cd vlib && flock /verif/build/.cargo.lock cargo build --profile nochecks --offline --bin vcheck ) > build/c07-nochecks-build.log 2>&1 || {
  echo "INCONCLUSIVE property=C07: nochecks harness does not build (see build/c07-nochecks-build.log)" >&2; exit 2; }
FUZZBIN=fuzz/target/x86_64-unknown-linux-gnu/release

# libFuzzer campaigns ------------------------------------------------------------------------------------
if [ "$TIER" = thorough ]; then JOBS=5; RUNS_tzif=12000000; RUNS_tzstr=12000000; RUNS_api=8000000;
else JOBS=1; RUNS_tzif=500000; RUNS_tzstr=500000; RUNS_api=300000; fi
declare -A MAXLEN=([tzif]=16384 [tzstr]=256 [api]=2048)
rm -rf build/c07-corpus build/c07-artifacts build/c07-fuzz-*.log build/c07-fuzz-*.rc build/c07-fuzzstats.json; mkdir -p build/c07-corpus build/c07-artifacts
pids=()
for t in tzif tzstr api; do
  for j in $(seq 1 $JOBS); do
    mkdir -p build/c07-corpus/$t-$j build/c07-artifacts/$t-$j
    cp corpus/$t/* build/c07-corpus/$t-$j/ 2>/dev/null
    runs_var=RUNS_$t
    ( $FUZZBIN/$t -runs=${!runs_var} -seed=$((SEED * 16 + j)) -max_len=${MAXLEN[$t]} -len_control=0 -timeout=10 -rss_limit_mb=8000 -malloc_limit_mb=1200 \
        -print_final_stats=1 -artifact_prefix=build/c07-artifacts/$t-$j/$t- build/c07-corpus/$t-$j > build/c07-fuzz-$t-$j.log 2>&1; echo $? > build/c07-fuzz-$t-$j.rc ) &
    pids+=($!)
  done
done
# the no-overflow-checks configuration of the structured half runs alongside
( VERIF_C07_PROFILE=nochecks VERIF_NO_EVIDENCE=1 ./target/nochecks/vcheck C07 --tier "$TIER" > build/c07-nochecks.out 2>&1; echo $? > build/c07-nochecks.rc ) &
pids+=($!)
wait "${pids[@]}"

viol=0; inconcl=0
for t in tzif tzstr api; do
  for j in $(seq 1 $JOBS); do
    rc=$(cat build/c07-fuzz-$t-$j.rc 2>/dev/null || echo 99)
    if [ "$rc" != 0 ]; then
      art=$(ls build/c07-artifacts/$t-$j/ 2>/dev/null | head -1)
      case "$art" in
        $t-crash-*|$t-oom-*|$t-leak-*)
          cp "build/c07-artifacts/$t-$j/$art" "replays/C07/$art"
          echo "FAILURE property=C07 kind=fuzz-$t : $(grep -E 'panicked at|oracle violated|ERROR: libFuzzer' build/c07-fuzz-$t-$j.log | head -2 | tr '\n' ' ' | cut -c1-400)"
          echo "VIOLATION property=C07 replay=/verif/replays/C07/$art"; viol=1;;
        $t-timeout-*|$t-slow-unit-*) echo "INCONCLUSIVE property=C07: libFuzzer time-out on target $t (build/c07-artifacts/$t-$j/$art)" >&2; inconcl=1;;
        *) echo "INCONCLUSIVE property=C07: fuzz target $t exited with $rc without artifact (see build/c07-fuzz-$t-$j.log)" >&2; inconcl=1;;
      esac
    fi
  done
done
[ $viol -eq 1 ] && exit 1
rc=$(cat build/c07-nochecks.rc 2>/dev/null || echo 99)
if [ "$rc" = 1 ]; then sed -e 's/^OK .*//' build/c07-nochecks.out | grep -E "^(FAILURE|CASE|VIOLATION)" | sed -e 's/^FAILURE property=C07/FAILURE property=C07 [build without overflow checks]/'; exit 1;
elif [ "$rc" != 0 ] && [ "$rc" != 2 ]; then journal_violation nochecks; exit 1;
elif [ "$rc" = 2 ]; then cat build/c07-nochecks.out >&2; inconcl=1; fi
[ $inconcl -eq 1 ] && exit 2

python3 - "$TIER" <<'PY'
import glob, json, re, sys
targets=[]
for t in ['tzif','tzstr','api']:
    ex=0; cov=0; corp=0; jobs=0
    for f in glob.glob(f'/verif/build/c07-fuzz-{t}-*.log'):
        s=open(f,errors='replace').read(); jobs+=1
        m=re.search(r'stat::number_of_executed_units:\s*(\d+)', s); ex+=int(m.group(1)) if m else 0
        c=re.findall(r'cov: (\d+)', s); cov=max(cov,int(c[-1]) if c else 0)
        c=re.findall(r'corp: (\d+)', s); corp=max(corp,int(c[-1]) if c else 0)
    targets.append({"target":t,"execs":ex,"jobs":jobs,"final_cov_edges":cov,"final_corpus_units":corp})
json.dump({"engine":"libFuzzer via cargo-fuzz (-s none, debug assertions + overflow checks on)","tier":sys.argv[1],"targets":targets,"also":"structured half repeated on a build with overflow checks and debug assertions off (profile nochecks)"}, open('/verif/build/c07-fuzzstats.json','w'))
PY
./target/release/vcheck C07 --tier "$TIER"; rc=$?
if [ $rc -gt 2 ]; then journal_violation checked; exit 1; fi
exit $rc
