#!/usr/bin/env bash
# C15 driver: compile-time auto-trait assertions, auxiliary static audit, then the generated-program differential (vcheck C15).
set -u
cd /verif
export CARGO_NET_OFFLINE=true
ID="$1"; shift
ARGS=("$@")
for a in "$@"; do [ "$a" = "--replay" ] && [ -z "${VERIF_C15_STATIC_ONLY:-}" ] && exec ./target/release/vcheck C15 "${ARGS[@]}"; done
mkdir -p build replays/C15

# (1) compile-time: every public type Send + Sync + 'static + Freeze. vlib built (./check did that) but autotraits does not => violation.
# Three feature configurations of tz-rs ({}, {alloc}, {alloc,std}): the public types of each must be shareable.
: > build/c15-autotraits.log
at_rc=0
for cfg in "" "--no-default-features --features alloc" "--no-default-features"; do
  echo "== autotraits build: tz-rs features [${cfg:-default (std)}]" >> build/c15-autotraits.log
  ( cd autotraits && flock /verif/build/.cargo-at.lock cargo +nightly build --offline $cfg ) >> build/c15-autotraits.log 2>&1 || { at_rc=1; break; }
done
if [ $at_rc -ne 0 ]; then
  if grep -qE "cannot be (sent|shared) between threads|Freeze|the trait bound" build/c15-autotraits.log; then
    cp build/c15-autotraits.log replays/C15/autotraits-build.log
    echo "FAILURE property=C15 kind=autotraits : a public type is no longer Send + Sync + 'static + Freeze ($(grep '^== autotraits' build/c15-autotraits.log | tail -1)): $(grep -E '^error' build/c15-autotraits.log | head -2 | tr '\n' ' ' | cut -c1-300)"
    echo "VIOLATION property=C15 replay=/verif/replays/C15/autotraits-build.log"
    exit 1
  fi
  echo "INCONCLUSIVE property=C15: autotraits crate does not build for another reason (see build/c15-autotraits.log)" >&2
  exit 2
fi

[ -n "${VERIF_C15_STATIC_ONLY:-}" ] && exit 0

# (2) auxiliary audit (NOT property-based testing; it can only fire when process-global mutable state really exists in the crate)
python3 - <<'PY' > build/c15-audit.txt
import re, subprocess, glob, sys
bad=[]
for f in sorted(glob.glob('/repo/src/**/*.rs', recursive=True)):
    src=open(f).read()
    m=re.search(r'#\[cfg\(test\)\]\s*mod\s+tests', src)
    if m: src=src[:m.start()]
    for n,line in enumerate(src.split('\n'),1):
        code=line.split('//')[0]
        if re.search(r'\bstatic\s+mut\b|\bthread_local!|\benv::(var|vars|var_os|set_var|remove_var)\b|\bstd::env\b', code):
            bad.append(f"{f}:{n}: {line.strip()}")
try:
    out=subprocess.run(['nm','-C','/verif/target/release/vcheck'],capture_output=True,text=True).stdout
    for l in out.split('\n'):
        p=l.split(None,2)
        if len(p)==3 and p[1] in 'bBdD' and re.search(r'(^|[<\s&])tz::', p[2]):
            bad.append(f"writable static of crate tz in the linked harness: {p[2]}")
except FileNotFoundError:
    pass
if bad: print('\n'.join(bad))
PY
if [ -s build/c15-audit.txt ] && [ -z "${VERIF_C15_SKIP_AUDIT:-}" ]; then
  cp build/c15-audit.txt replays/C15/static-audit.txt
  echo "FAILURE property=C15 kind=static-audit : process-global state in crate tz: $(head -3 build/c15-audit.txt | tr '\n' ';' | cut -c1-400)"
  echo "VIOLATION property=C15 replay=/verif/replays/C15/static-audit.txt"
  exit 1
fi
exec ./target/release/vcheck C15 "${ARGS[@]}"
