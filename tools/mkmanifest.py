#!/usr/bin/env python3
"""Regenerates /verif/MANIFEST.json from the table below (kept valid against /root/.vp/MANIFEST.schema.json)."""
import json, os, sys
HERE = os.path.dirname(os.path.dirname(os.path.abspath(__file__)))
props = [json.loads(l) for l in open(os.path.join(HERE, 'properties.jsonl'))]

# id -> (technique, level text, level note, design ref)
CLAIMED = {
 'C01': ("bounded-exhaustive enumeration per factor (400-year cycle days, seconds of day, cycle indices) + proptest mixture, against an independent calendar oracle",
         "Exploration: every day of the 400-year cycle at boundary and random cycle indices, every second of chosen days, every cycle index (thorough), range boundaries and a proptest mixture are converted through three entry points (from_timespec, the UTC zone, from_total_nanoseconds) and compared field by field (incl. weekday, year-day, refusal) with an independent era-based calendar validated against a day-by-day odometer. Complete per factor, sampled across factors; no proof.",
         "Trusts the O-cal oracle (self-tested at start-up) and the 400-year periodicity of the Gregorian calendar; nanoseconds are treated as pass-through in from_timespec.", "DESIGN.md §5 C01"),
 'C02': ("bounded-exhaustive validity grid and cycle-day enumeration + proptest (valid, single-defect, successor and random pairs) against an independent calendar oracle; round trips; monotonicity metamorphic relation",
         "Exploration: all 65536 (month, day) byte pairs for 10 year classes, all days of the 400-year cycle at fixed and random eras with 4 times each, every day of years i32::MIN/MAX, plus proptest-generated valid tuples, single-field perturbations, and (date, successor) / random pairs. Accept/reject, error class (specific variant for single defects), exact Unix time, both round trips, second 60 semantics, strict monotonicity and Ord agreement are asserted. Complete per factor, sampled across factors.",
         "Trusts O-cal (self-tested). Specific error variant only asserted for single-defect inputs.", "DESIGN.md §5 C02"),
 'C16': ("enumeration of k*1e9+e boundary counts + proptest over i128 / offsets, against a truncating-division reference split; constructor agreement (differential between the total-nanoseconds and (seconds, nanoseconds) constructors)",
         "Exploration: boundary enumeration (multiples of 1e9 +-2 around 0, the range ends, i64 and i128 extremes) and a proptest mixture over all i128 x i32 offsets; split, recombination, refusal boundaries and equality with the (seconds, nanoseconds) constructors in every field (incl. flag and designation) on nine zone shapes per count (one type; transitions around the count; one listed type under a fixed / DST rule of other types; rule-less tables ending before / at / after the count, where both must refuse alike); invalid nanosecond arguments through new/find/find_n.",
         "Reference split written with truncating / and % plus fix-up.", "DESIGN.md §5 C16"),
 'C18': ("proptest over date-times x offsets (full i32) + enumeration of 16k offsets, checked by an independent strict reader of the text form (round trip text -> fields/offset)",
         "Exploration: every offset in -7200..=7200 and 8000 offsets around +-100 h, +-1000 h and the i32 extremes on 4 base date-times (both constructors), plus a proptest mixture of years (full i32), seconds 0..60, nanoseconds and offsets; the rendered text must match the documented shape exactly and read back to the same fields, nanoseconds and offset.",
         "The strict reader is the specification of the shape (written from the property text).", "DESIGN.md §5 C18"),
 'C04': ("proptest over constructor-accepted rules (ties and year-long periods constructed; class histogram measured) + notation sweep (thorough: all 1151^2 pairs), each probed at start/end/New-Year instants +- deltas over 12 years + i32-extreme years, against a period model whose order is decided on a full 400-year cycle",
         "Exploration: accepted, interleaving rules of every class (start-first, end-first, all-tie, mixed-tie both orders) are evaluated at ~600 boundary instants each and the returned type (offset, flag, designation) must equal the half the period model prescribes; year-guard refusals at the i32 extremes are asserted; at boundary instants the value-building entry points (DateTime::from_timespec, from_total_nanoseconds with a sub-second part, UtcDateTime::project) must report the same half and its clock. Day-notation pairs complete in thorough; times, offsets, years sampled.",
         "Trusts O-cal/O-rule; classification over one 400-year cycle; overlapping rules are outside the property's quantifier and only counted.", "DESIGN.md §5 C04"),
 'C11': ("complete enumeration of the stated finite quotient (1151^2 day pairs x all d classes) against a brute-force 400-year oracle; proptest for off-lattice arguments; window-edge enumeration",
         "Exploration, exhaustive for the stated quotient: every (start, end) notation pair x every d = k*86400+e within the windows is decided by the constructor and by a brute-force evaluation of the three comparisons over a full 400-year cycle; each d is realised through random time/offset splits. Plus offset/time window edges (specific errors) and day-constructor bounds.",
         "Tie-tolerant reading of 'never change sign' (pinned by the crate's own unit test); dependence on times/offsets only through d is itself sampled via random splits.", "DESIGN.md §5 C11"),
 'C12': ("proptest over valid leap tables x probe zones (transition at/around every record) against a sequential leap model; forward switch instant and search-reported instant compared (differential between the crate's two conversion routines and the model)",
         "Exploration: for generated leap tables (positive/negative/mixed, minimal spacing, real table) a probe zone with one transition at count T reveals both private conversions; forward switch = model u_T, monotone over a +-10 s window, the gap reported by the search is exactly at the forward switch, adjoining local times resolve to single instants; one case in eight moves the table before the epoch (refused by the constructor and counted; if accepted, the same model applies).",
         "O-leap model written from the property text; conversions observed through the public API only.", "DESIGN.md §5 C12"),
 'C13': ("proptest: valid-by-construction zones + exactly one of 10 defect classes, random multi-defect tuples, leap-spacing enumeration up to i64::MAX, byte-exhaustive designation enumeration; validity-predicate oracle; owned vs borrowed differential",
         "Exploration: generated valid zones must be accepted by both constructors and give back their parts; each single defect must be refused with its specific error; multi-defect tuples must be refused with one of the violated clauses' errors; both constructors always agree. LocalTimeType::new: every byte at every position for lengths 3..7, lengths 0..10, offset i32::MIN.",
         "Validity predicate transcribed from the property; three unspecified corners (rule cannot be evaluated at the last transition) carry no Ok/Err claim.", "DESIGN.md §5 C13"),
 'C03': ("bounded-exhaustive (table length x query rank x trailer) + proptest over valid zones (incl. zic-aligned and leap-second zones) + big tables, against a linear-scan timeline model (returned type compared by value: offset, flag, designation)",
         "Exploration: complete for the hand-rolled binary search over all table lengths 0..=256 (thorough 600) x every rank x 3 trailers; random valid zones anywhere in i64 queried at every transition -1/0/+1 on both time scales and extremes; tables up to 2.6e5 entries. The returned type must equal the expected slot's type (which of several equal slots is returned is only counted), errors by kind, from_timespec fields = O-cal(instant+offset); the side entrances (from_total_nanoseconds, projections from UTC and from a same-offset type, and find_current_local_time_type on zones built around the clock reading, bracketed by the harness's own clock readings) must give the same answer; every zone that can be written as a TZif file (v1 and v2/v3, independent writer) is looked up again through TimeZone::from_tz_data with the same expected answers.",
         "O-zone/O-leap/O-rule models; leap zones within 2^32 s of the i64 limits and 'overlapping' rules carry no claim.", "DESIGN.md §5 C03"),
 'C05': ("proptest over valid zones of all shapes (incl. dense, leap-second, zic-aligned zones) x model-derived local times; two oracles: timeline model and round trip through the crate's own forward lookup (metamorphic/inverse relation)",
         "Exploration: for each generated zone ~48 local times placed on every event's two clocks +- seconds/hours, New Year, random and second-60 variants; the valid results must equal, in order and with their types, the instants at which the zone's clock shows that time (model), convert back through the forward lookup to the searched fields, be complete and duplicate-free w.r.t. the forward lookup, and be unique() exactly when single - through the allocating search and through find_n with one buffer kept across the searches of a case (still holding the previous result).",
         "Zones valid by construction from O-leap/O-rule; 'overlapping' rules excluded as known finding KF-C05-OVERLAP (probe printed); |year| > i32::MAX-200: only error kind asserted.", "DESIGN.md §5 C05"),
 'C06': ("same generated cases as C05, checked against the model's event list: exact gap entries, strict ascending order, earliest/latest/unique semantics",
         "Exploration: exactly one Skipped entry per event with off_after > off_before and T+off_before <= L < T+off_after (both halves = T on the clock before/after, same nanoseconds), none otherwise (coincident rule transitions cancel; last table event ignored without trailer); whole list strictly ascending; earliest/latest/unique as documented.",
         "Same as C05; zones where two table transitions take effect at the same UTC instant (one on an inserted leap second) are excluded and counted.", "DESIGN.md §5 C06"),
 'C14': ("proptest over every constructor (fields+type, instant+type, total nanoseconds, projection between generated zones, range-edge searches) + invariant monitor on every search entry; pairwise comparison over pools",
         "Exploration: the invariant 'fields = O-cal(unix + offset), second 60 = next minute, getters consistent' is checked on every DateTime produced by any constructor and by the search (also inside C03/C05/C06/C17); acceptance/refusal of DateTime::new and from_timespec_and_local decided by the model; projection preserves (unix, ns) and yields the model's type; ==/partial_cmp depend only on (unix, ns) over all pairs of pools; searches at the range ends never return instants outside the range.",
         "O-cal/O-zone; from_timespec_and_local's documented acceptance rule (instant+offset representable).", "DESIGN.md §5 C14"),
 'C17': ("same generated cases as C05 x every buffer length 0..=k+2 with stale pre-fill from the previous search (2-step histories); differential against the allocating search, field by field",
         "Exploration: find_n into buffers of every length n in 0..=k+2, pre-filled with the previous search's entries: data() = first min(n,k) results (deep field compare incl. both halves of gaps), count()=k, is_exhaustive iff n>=k, untouched tail slots, same error kind, and unique/earliest/latest equal to the allocating search when exhaustive; every searched tuple with one field made invalid is refused by both entry points with the same date-time error.",
         "The allocating search is the reference (itself checked by C05/C06).", "DESIGN.md §5 C17"),
 'C08': ("model zones -> independent TZif writer (v1/v2/v3, decoy 32-bit block, shared/suffix designations, all indicator combinations) -> decoder; 14 single-defect corruption classes decided by an independent strict reader; every real tzdata file and its truncations (differential against the reader)",
         "Exploration: generated zones written by an independent writer must decode to exactly TimeZone::new(parts); each listed format violation must be rejected; every other byte-level outcome (truncations, count edits, byte flips, footer edits) must equal the reference decoding through an independent strict reader + O-tzstr; all 894 real tzdata 2025b files decode to what the reader reads, as do all prefixes of a sample (thorough: of all). One byte string in four (and every must-reject case) is also decoded through the other public entry point - a file found by TimeZoneSettings under six kinds of name, incl. names that are complete TZ descriptions - and must give the same zone or a decoding error.",
         "Writer/reader written from RFC 8536 §3 (round-trip self-test per case); zone-level validity inside the reference decoding is delegated to the crate's constructor (C13's subject); mixed version bytes carry no claim.", "DESIGN.md §5 C08"),
 'C09': ("grammar-directed sentence generation with independent spelling choices (both modes) + bounded-exhaustive token strings (<= 5 tokens of a 24-token alphabet) + one-character mutations, through three observation paths, against an independent recursive-descent recogniser/evaluator",
         "Exploration: accept <=> sentence of the grammar in the path's mode (and order-stable rule), decoded rule equal to the evaluator's (names, negated offsets, default +1 h, default 02:00:00, day notations, signed/extended times only in v3 footers); complete for all token sequences of length <= 5 (8.3e6 strings x 3 paths), sampled for long sentences and mutations.",
         "O-tzstr recogniser (self-tested against its own generator); whitespace stripping of the two observation layers is applied before the oracle.", "DESIGN.md §5 C09"),
 'C20': ("model-based proptest: TZ values x virtual file systems x directory lists through the recording read function, against a reference resolver written from tzset(3); stateful histories (several resolutions through one settings value, each compared with the model)",
         "Exploration: exact sequence of opened paths, outcome class (file chosen / decoded as description / empty / I/O error / decoding error without fallback / description refused) and decoded zone must equal the reference resolver's for generated TZ values (padded, ':'-prefixed, absolute, relative, sentence-and-filename), directory lists and virtual file systems populated on the candidate paths; parse_local() reads /etc/localtime only. Histories: one settings value resolves 2-6 values in sequence over a file system holding the same names under several directories; every step must equal the reference's answer for that value alone.",
         "Reference resolver transcribed from the property text; virtual file system is harness state.", "DESIGN.md §5 C20"),
 'C07': ("coverage-guided fuzzing (libFuzzer, 3 targets: TZif bytes, TZ-string bytes, structured API via arbitrary) with semantic oracles inside the targets + structured enumeration (all truncations / hostile header counts / byte flips of every real file) + counting allocator; two build configurations",
         "Exploration: libFuzzer campaigns from committed seed corpora with a fixed number of runs on three targets whose bodies also run the C08 reference decoding, the C09 recogniser and the owned-vs-borrowed constructor comparison; coverage-independent enumeration of every truncation point and every hostile header count of all 894 real files and byte flips of a sample; random structured API arguments biased to integer extremes; every public query on every accepted zone, incl. a grid of invalid calendar fields through find / find_n / DateTime::new / UtcDateTime::new (an Ok there is reported like a panic). A panic, overflow trap, out-of-bounds, abort, or heap use above 16*len+4 KiB is a violation. Run with overflow checks/debug assertions on and (structured half) off.",
         "No 32-bit target available; libFuzzer campaigns are only approximately reproducible from the seed (the saved artifact is the reproducible unit); time-outs are inconclusive.", "DESIGN.md §5 C07"),
 'C10': ("differential testing against two independent implementations (glibc localtime_r, CPython zoneinfo) on every file of the vendored tzdata snapshot: generated query lists (every transition -1/0/+1, random and footer-governed instants, local times around transitions) answered by tz-rs and by reference servers reading the same bytes; random TZ strings vs glibc's parser",
         "Exploration: (offset, abbreviation) at every recorded transition -1/0/+1, random instants 1900-2500, the far future tied to the compared years by the 400-year period (rule instants of 2040/2101 shifted by up to 5e6 cycles) and footer-governed instants of all 447 main-tree files vs glibc and zoneinfo, and of all 447 right/ files vs glibc (through the leap model); isdst and broken-down fields vs glibc; mktime instant sets for local times within 3 h of every transition (main tree) vs the sets implied by both references, and candidate-instant membership around every post-1972 transition of the right/ tree vs glibc; generated TZ strings vs glibc's TZ-environment parser inside the domain where glibc is itself right.",
         "Agreement is with glibc and CPython as installed, on tzdata 2025b as vendored; rule-less files after their last transition (as recorded in the file, read by the independent RFC 8536 reader) are excluded (tz-rs must answer NoAvailableLocalTimeType there).", "DESIGN.md §5 C10"),
 'C15': ("generated multi-threaded programs (op sequences over shared zones; sequential vs reversed / permuted / 2-16 threads / child process with perturbed environment) with per-op result digests; compile-time auto-trait + Freeze assertions; auxiliary (non-PBT) static audit",
         "Exploration of the observable half: every operation of each generated program must return, in any order, on any of 2..16 concurrently running threads sharing the zones by reference, and in a process with TZ/TZDIR/LANG/cwd changed, exactly what it returns in the plain sequential run (digest of the complete Debug rendering). Settings operations use four virtual file systems giving the same names different contents, so a cache keyed on too little collides. Compile-time: Send + Sync + 'static + Freeze for every public type, in each of the three feature configurations of tz-rs. The schedule is the OS's: rare interleavings and behaviour-preserving global state are out of reach; an auxiliary symbol/token audit (labelled non-PBT) covers the latter.",
         "OS-chosen schedules; digest = hash of Debug output; auxiliary audit is not the deciding evidence.", "DESIGN.md §5 C15"),
 'C19': ("differential testing across build configurations: one generated corpus through a probe built with tz-rs features {}, {alloc}, {alloc,std} and through the std harness; transcript equality; build success per configuration",
         "Exploration: a generated corpus of cases (zones, instants, civil times, nanosecond counts, buffer lengths) is run through the allocation-free API in three separately built feature configurations and in the harness; per-case transcripts (incl. Display with width/precision/fill) must be identical, and every configuration must build.",
         "Host-only: no bare-metal target installed; the no_std build is checked by compiling tz-rs as a no_std crate.", "DESIGN.md §5 C19"),
}

def entry(pid):
    tech, text, note, ref = CLAIMED[pid]
    return {
        "property_id": pid,
        "quick_cmd": f"./check {pid} --tier quick",
        "thorough_cmd": f"./check {pid} --tier thorough",
        "evidence_file": f"/verif/evidence/{pid}.json",
        "replay_cmd_template": f"./check {pid} --replay {{path}}",
        "engine": "vcheck",
        "level_claimed": {"category": "exploration", "text": text, "design_ref": ref},
        "level_note": note,
        "technique": tech,
    }

NOT_YET = "check not built yet in this round (planned: see DESIGN.md §5); will be claimed once its check runs clean on the unchanged tree"
NA = {}

manifest = {
    "version": 1,
    "setup_cmd": "./setup.sh",
    "hooks": {
        "guard": "tz_rs_verif",
        "enable": "none needed: every observation goes through the public API; no hook commit exists (the cfg name is reserved and unused)",
        "baseline_off_cmd": "cd /repo && cargo test --workspace --no-fail-fast --offline",
        "source_commits": [],
        "add_only": True,
    },
    "engines": [
        {"name": "libfuzzer", "path": "/verif/fuzz", "serves_properties": ["C07"], "kind_free_text": "cargo-fuzz crate with three libFuzzer targets (tzif, tzstr, api) whose bodies live in vlib::fuzz_entry; driven by checks/C07.sh"},
        {"name": "references", "path": "/verif/refs", "serves_properties": ["C10"], "kind_free_text": "glibc_ref.c (localtime_r server) and zoneinfo_ref.py (CPython zoneinfo server): independent implementations used as differential oracles"},
        {"name": "cfgprobe", "path": "/verif/cfgprobe", "serves_properties": ["C19"], "kind_free_text": "probe binary built three times against tz-rs with features {}, {alloc}, {alloc,std}"},
        {"name": "autotraits", "path": "/verif/autotraits", "serves_properties": ["C15"], "kind_free_text": "compile-time Send + Sync + 'static + Freeze assertions for every public type (nightly), built once per feature configuration of tz-rs"},
        {"name": "vcheck", "path": "/verif/vlib", "serves_properties": sorted(CLAIMED), "kind_free_text": "Rust harness: independent oracles + enumerations + proptest (sharded, seeded, shrinking) + replay; built against /repo by path dependency on every ./check"},
    ],
    "checks": [entry(p['id']) for p in props if p['id'] in CLAIMED],
    "not_applicable": [{"property_id": p['id'], "reason": NA.get(p['id'], NOT_YET)} for p in props if p['id'] not in CLAIMED],
    "notes": "All checks: VERIF_SEED seeds every random choice (default 0); tiers are fixed-work; exit 2 = inconclusive/infrastructure, never a violation. Known findings: /verif/known_findings.json.",
}
json.dump(manifest, open(os.path.join(HERE, 'MANIFEST.json'), 'w'), indent=1)
try:
    import jsonschema
    jsonschema.validate(manifest, json.load(open('/root/.vp/MANIFEST.schema.json')))
    print("MANIFEST.json valid;", len(manifest['checks']), "checks claimed")
except ImportError:
    print("jsonschema not available; written without validation")
