#!/usr/bin/env bash
# tools/mutant_matrix_part.sh <grep pattern on change names> — run the matching seeded changes against their own property's quick
# check and replace / append their lines in seeded/RESULTS.md (the full table is produced by tools/mutant_matrix.sh).
cd /verif
PAT="$1"; OUT=seeded/RESULTS.md
for d in seeded/C*/; do
  name=$(basename "$d"); id=${name%%-*}
  echo "$name" | grep -qE "$PAT" || continue
  line=$(flock /tmp/repo-mutant.lock tools/mutant_run.sh "$name" "$id" 2>&1 | tail -1)
  rc=$(echo "$line" | sed -E 's/.* rc=([0-9]+) .*/\1/'); t=$(echo "$line" | sed -E 's/.* t=([0-9]+)s.*/\1/')
  msg=$(echo "$line" | sed -E 's/^[^ ]+ [^ ]+ rc=[0-9]+ t=[0-9]+s ?//' | tr '|' '/' | cut -c1-220)
  row="| $name | $id | $rc | $t | $msg |"
  grep -v "^| $name |" $OUT > $OUT.tmp; echo "$row" >> $OUT.tmp
  { head -4 $OUT.tmp; tail -n +5 $OUT.tmp | sort -t'|' -k2,2V; } > $OUT; rm -f $OUT.tmp
  echo "$row" | cut -c1-160
done
