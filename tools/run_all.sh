#!/usr/bin/env bash
# tools/run_all.sh [quick|thorough] [ids...] — run checks, one summary line each.
cd /verif
TIER="${1:-quick}"; shift || true
IDS=("$@"); [ ${#IDS[@]} -eq 0 ] && IDS=($(python3 -c "import json;print(' '.join(c['property_id'] for c in json.load(open('MANIFEST.json'))['checks']))"))
for id in "${IDS[@]}"; do
  s=$(date +%s); out=$(./check "$id" --tier "$TIER" 2>&1); rc=$?; e=$(date +%s)
  echo "seed=${VERIF_SEED:-0} $id rc=$rc t=$((e-s))s $(echo "$out" | grep -E '^(OK|FAILURE|INCONCLUSIVE|KNOWN)' | tail -1 | cut -c1-200)"
done
