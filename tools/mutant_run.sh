#!/usr/bin/env bash
# tools/mutant_run.sh <seeded name> <ID> [<ID>...]   — apply seeded/<name>/patch.diff to /repo, run quick checks, undo.
set -u
NAME="$1"; shift
cd /verif
git -C /repo diff --quiet || { echo "/repo has uncommitted changes"; exit 2; }
git -C /repo apply "/verif/seeded/$NAME/patch.diff" || { echo "$NAME: patch does not apply"; exit 2; }
export VERIF_NO_EVIDENCE=1
for ID in "$@"; do
  start=$(date +%s)
  out=$(./check "$ID" --tier "${TIER:-quick}" 2>&1); rc=$?
  end=$(date +%s)
  echo "$NAME $ID rc=$rc t=$((end-start))s $(echo "$out" | grep -E '^(FAILURE|INCONCLUSIVE)' | head -1 | cut -c1-300)"
done
git -C /repo checkout -- .
