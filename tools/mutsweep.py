#!/usr/bin/env python3
"""Operator-mutation sweep (sensitivity audit of the checks, DESIGN.md §7 / §10.5).

For every small syntactic mutation of the crate's non-test code (relational / arithmetic / logical operator swaps, +-1 on small
constants) that still compiles and passes the repository's own 42 tests, run the quick checks until one reports a violation.
Everything happens in a scratch area outside /repo and /verif (a git worktree of /repo, a copy of vlib whose path dependency
points at that worktree, its own target dir, and a VERIF_HOME with links to the read-only data), which is removed at the end.

usage: tools/mutsweep.py [--files a.rs,b.rs] [--limit N] [--out FILE] [--ids C01,C02,...] [--keep]
"""
import argparse, json, os, re, shutil, subprocess, sys, time

SCR = '/tmp/mutsweep'
REPO = f'{SCR}/repo'


def set_scr(path):
    global SCR, REPO
    SCR = path
    REPO = f'{SCR}/repo'
FILES = ['src/datetime/mod.rs', 'src/datetime/find.rs', 'src/timezone/mod.rs', 'src/timezone/rule.rs', 'src/parse/tz_file.rs',
         'src/parse/tz_string.rs', 'src/utils/const_fns.rs', 'src/parse/utils.rs', 'src/constants/mod.rs']
# cheap checks first; C07 (fuzz), C15 (threads; needs autotraits) and C19 (3 builds) are not part of the sweep
ORDER = ['C01', 'C02', 'C16', 'C18', 'C11', 'C13', 'C12', 'C20', 'C03', 'C04', 'C14', 'C05', 'C06', 'C17', 'C08', 'C10', 'C09']

SUBS = [
    (r' <= ', ' < '), (r' < ', ' <= '), (r' >= ', ' > '), (r' > ', ' >= '), (r' == ', ' != '), (r' != ', ' == '),
    (r' && ', ' || '), (r' \|\| ', ' && '), (r' \+ 1\b', ' - 1'), (r' - 1\b', ' + 1'), (r' \+ ', ' - '), (r' - ', ' + '),
    (r' \* ', ' / '), (r' / ', ' * '), (r' % ', ' / '), (r'\+= ', '-= '), (r'-= ', '+= '),
    (r'\b0\.\.=', '1..='), (r'\.\.=', '..'), (r'checked_add', 'checked_sub'), (r'checked_sub', 'checked_add'),
    (r'saturating_sub', 'saturating_add'), (r'rem_euclid', 'wrapping_rem'), (r'div_euclid', 'wrapping_div'),
    (r'\btrue\b', 'false'), (r'\bfalse\b', 'true'), (r'Ordering::Less \| Ordering::Equal', 'Ordering::Less'),
    (r'Ok\(x\) => x \+ 1', 'Ok(x) => x'), (r'Err\(x\) => x,', 'Err(x) => x + 1,'),
]
NUM = re.compile(r'(?<![\w.])(\d{1,3})(?![\w.])')

# second operator set (--ops 2): whole-statement and condition-level mutations, large literals
SUBS2 = [
    (r'\.min\(', '.max('), (r'\.max\(', '.min('), (r'\bbreak\b', 'continue'), (r'\bcontinue\b', 'break'),
    (r'\.rev\(\)', ''), (r'\.skip\(1\)', ''), (r'\.is_some\(\)', '.is_none()'), (r'\.is_none\(\)', '.is_some()'),
    (r'\.is_ok\(\)', '.is_err()'), (r'\.is_err\(\)', '.is_ok()'), (r' as i64\b', ' as i32 as i64'), (r'\bi64::from\(', 'i64::from(1 + '),
    (r'\.abs\(\)', ''), (r'\.unsigned_abs\(\)', '.wrapping_abs() as u32'), (r'-\(', '('), (r'!\(', '('),
    (r'\.checked_mul\(', '.checked_add('), (r'\.last\(\)', '.first()'), (r'\.first\(\)', '.last()'),
]
BIGNUM = re.compile(r'(?<![\w.])(\d[\d_]{3,12})(?![\w.])')
IFCOND = re.compile(r'^(\s*)(\} else )?if (?!let )(.+) \{\s*$')
TRYSTMT = re.compile(r'^\s*(?!let |return |Ok\(|Some\()[A-Za-z_][^=]*\?;\s*$')


def mutants2(files):
    for f in files:
        src, lines = code_lines(f'{REPO}/{f}')
        for i, l in lines:
            code = l.split('//')[0]
            for pat, rep in SUBS2:
                for m in re.finditer(pat, code):
                    new = code[:m.start()] + rep + code[m.end():] + l[len(code):]
                    if new != l:
                        yield f, i, l, new, f'{pat} -> {rep}'
            m = IFCOND.match(code.rstrip())
            if m:
                for val in ('true', 'false'):
                    yield f, i, l, f"{m.group(1)}{m.group(2) or ''}if {val} {{", f'if-condition -> {val}'
                # negate the whole condition
                yield f, i, l, f"{m.group(1)}{m.group(2) or ''}if !({m.group(3)}) {{", 'if-condition negated'
            if TRYSTMT.match(code):
                yield f, i, l, re.sub(r'\S.*$', '();', code.rstrip(), count=1), 'checked statement deleted'
            for m in BIGNUM.finditer(code):
                txt = m.group(1)
                try:
                    v = int(txt.replace('_', ''))
                except ValueError:
                    continue
                for nv in (v + 1, v - 1):
                    yield f, i, l, code[:m.start(1)] + str(nv) + code[m.end(1):] + l[len(code):], f'{v} -> {nv}'


# third operator set (--ops 3): wrong-variable faults (paired identifier components swapped, two-argument calls with their
# arguments exchanged), comparison direction flips, overflow checks replaced by wrapping arithmetic, dropped assignments /
# pushes, `Some(..)` results replaced by `None`
PAIRS = [('start', 'end'), ('std', 'dst'), ('before', 'after'), ('previous', 'next'), ('left', 'right'), ('min', 'max'),
         ('hour', 'minute'), ('minute', 'second'), ('month', 'year'), ('normal', 'leap'), ('lower', 'upper'), ('first', 'last'),
         ('earliest', 'latest'), ('less', 'greater'), ('add', 'sub'), ('some', 'none'), ('current', 'previous'), ('ut', 'dst')]
SUBS3 = [(r' < ', ' > '), (r' <= ', ' >= '), (r' > ', ' < '), (r' >= ', ' <= '), (r'Ordering::Less', 'Ordering::Greater'),
         (r'Ordering::Greater', 'Ordering::Less'), (r'\.saturating_(add|sub|mul)\(', r'.wrapping_\1('), (r'\.div_euclid\(', '.wrapping_div('),
         (r' as i64\b', ' as u32 as i64'), (r' as usize\b', ' as u8 as usize'), (r'\?;', '.ok();'), (r'\.unix_leap_time\(\)', '.unix_leap_time() + 1'),
         (r'\.ut_offset\(\)', '.ut_offset() + 1'), (r'\.len\(\)', '.len() - 1'), (r'\.len\(\)', '.len() + 1')]
IDENT = re.compile(r'[A-Za-z_][A-Za-z0-9_]*')
CHECKED = re.compile(r'([A-Za-z_][\w.]*(?:\(\))?)\.checked_(add|sub|mul)\(([^()]*(?:\([^()]*\))?[^()]*)\)')
TWOARGS = re.compile(r'\(([A-Za-z_&*][\w.&*]*(?:\(\))?(?: as \w+)?), ([A-Za-z_&*][\w.&*]*(?:\(\))?(?: as \w+)?)\)')
ASSIGN = re.compile(r'^\s*(?!let |return |const |pub |fn |use )[a-z_][\w.\[\]]* [-+*/]?= .*;\s*$')
PUSHST = re.compile(r'^\s*[a-z_][\w.]*\.(push|swap|push_str|insert|extend|truncate)\(.*\);\s*$')
SOMEEXPR = re.compile(r'(=> |return |^\s*)Some\((.*)\)(,?)\s*$')


def _swap_case(word, repl):
    if word.isupper():
        return repl.upper()
    if word[0].isupper():
        return repl.capitalize()
    return repl


def mutants3(files):
    for f in files:
        src, lines = code_lines(f'{REPO}/{f}')
        for i, l in lines:
            code = l.split('//')[0]
            for pat, rep in SUBS3:
                for m in re.finditer(pat, code):
                    new = code[:m.start()] + m.expand(rep) + code[m.end():] + l[len(code):]
                    if new != l:
                        yield f, i, l, new, f'{pat.strip()} -> {rep.strip()}'
            for m in IDENT.finditer(code):
                tok = m.group(0)
                parts = tok.split('_')
                for k, part in enumerate(parts):
                    for a, b in PAIRS:
                        for x, y in ((a, b), (b, a)):
                            if part.lower() == x:
                                np = parts[:k] + [_swap_case(part, y)] + parts[k + 1:]
                                new = code[:m.start()] + '_'.join(np) + code[m.end():] + l[len(code):]
                                yield f, i, l, new, f'identifier {tok} -> {"_".join(np)}'
            for m in CHECKED.finditer(code):
                new = code[:m.start()] + f'Some({m.group(1)}.wrapping_{m.group(2)}({m.group(3)}))' + code[m.end():] + l[len(code):]
                yield f, i, l, new, f'checked_{m.group(2)} -> wrapping_{m.group(2)}'
            for m in TWOARGS.finditer(code):
                if m.group(1) != m.group(2):
                    new = code[:m.start()] + f'({m.group(2)}, {m.group(1)})' + code[m.end():] + l[len(code):]
                    yield f, i, l, new, 'two arguments exchanged'
            if ASSIGN.match(code) or PUSHST.match(code):
                yield f, i, l, re.sub(r'\S.*$', '();', code.rstrip(), count=1), 'statement deleted'
            m = SOMEEXPR.search(code.rstrip())
            if m and 'if let' not in code and 'while let' not in code:
                c = code.rstrip()
                yield f, i, l, c[:m.start()] + m.group(1) + 'None' + m.group(3), 'Some(..) -> None'


# fourth operator set (--ops 4): the fault kinds of seeded round 13 — dropped conjuncts / disjuncts (leniency and hardening), range
# checks of conversions replaced by `as` casts, further narrowing casts, byte-literal and named-constant confusions, index and
# slice-bound shifts, half-open <-> closed ranges, dropped additive terms, defaults of `unwrap_or`
CONSTS = ['SECONDS_PER_MINUTE', 'MINUTES_PER_HOUR', 'HOURS_PER_DAY', 'SECONDS_PER_HOUR', 'SECONDS_PER_DAY', 'DAYS_PER_WEEK',
          'SECONDS_PER_WEEK', 'SECONDS_PER_28_DAYS', 'MONTHS_PER_YEAR', 'DAYS_PER_NORMAL_YEAR', 'SECONDS_PER_NORMAL_YEAR',
          'SECONDS_PER_LEAP_YEAR', 'DAYS_PER_4_YEARS', 'DAYS_PER_100_YEARS', 'DAYS_PER_400_YEARS']
CONST_NEIGHBOURS = {'SECONDS_PER_MINUTE': ['SECONDS_PER_HOUR'], 'MINUTES_PER_HOUR': ['HOURS_PER_DAY'], 'HOURS_PER_DAY': ['MINUTES_PER_HOUR'],
                    'SECONDS_PER_HOUR': ['SECONDS_PER_MINUTE', 'SECONDS_PER_DAY'], 'SECONDS_PER_DAY': ['SECONDS_PER_HOUR', 'SECONDS_PER_WEEK'],
                    'DAYS_PER_WEEK': ['HOURS_PER_DAY'], 'SECONDS_PER_WEEK': ['SECONDS_PER_DAY', 'SECONDS_PER_28_DAYS'],
                    'SECONDS_PER_28_DAYS': ['SECONDS_PER_WEEK'], 'MONTHS_PER_YEAR': ['DAYS_PER_WEEK'],
                    'DAYS_PER_NORMAL_YEAR': ['DAYS_PER_4_YEARS'], 'SECONDS_PER_NORMAL_YEAR': ['SECONDS_PER_LEAP_YEAR'],
                    'SECONDS_PER_LEAP_YEAR': ['SECONDS_PER_NORMAL_YEAR'], 'DAYS_PER_4_YEARS': ['DAYS_PER_NORMAL_YEAR', 'DAYS_PER_100_YEARS'],
                    'DAYS_PER_100_YEARS': ['DAYS_PER_4_YEARS', 'DAYS_PER_400_YEARS'], 'DAYS_PER_400_YEARS': ['DAYS_PER_100_YEARS'],
                    'CUMUL_DAYS_IN_MONTHS_NORMAL_YEAR': ['CUMUL_DAYS_IN_MONTHS_LEAP_YEAR'], 'CUMUL_DAYS_IN_MONTHS_LEAP_YEAR': ['CUMUL_DAYS_IN_MONTHS_NORMAL_YEAR'],
                    'DAYS_IN_MONTHS_NORMAL_YEAR': ['DAY_IN_MONTHS_LEAP_YEAR_FROM_MARCH'], 'UNIX_OFFSET_SECS': ['SECONDS_PER_NORMAL_YEAR'], 'OFFSET_YEAR': ['DAYS_PER_NORMAL_YEAR']}
BYTES = ["b'+'", "b'-'", "b'J'", "b'M'", "b','", "b'/'", "b'.'", "b':'", "b'<'", "b'>'", "b'\\n'", "b'0'", "b'9'", "b'a'", "b'z'", "b'A'", "b'Z'"]
# (the narrowing casts of sets 2 and 3 are not repeated with other widths: a first run showed 20 of 20 survivors of `as i8 as` / `as u16 as` / `as i64 as i128` variants to be identity casts)
SUBS4 = [

         (r'\b(i8|i16|i32|i64|u8|u16|u32|u64|usize)::try_from\(([^()]*(?:\([^()]*\))?[^()]*)\)\?', r'((\2) as \1)'),
         (r'\.try_into\(\)\?', '.try_into().unwrap_or_default()'),
         (r'\[(\w+)\]', r'[\1 + 1]'), (r'\[(\w+)\]', r'[\1 - 1]'), (r'\[(\w+) \+ 1\]', r'[\1]'), (r'\[(\w+) - 1\]', r'[\1]'),
         (r'\[\.\.(\w[\w.()]*)\]', r'[..\1 - 1]'), (r'\[(\w[\w.()]*)\.\.\]', r'[\1 + 1..]'), (r'\[1\.\.\]', '[..]'), (r'\[\.\.(\w[\w.()]*) - 1\]', r'[..\1]'),
         (r'(?<![.=\w])(\w[\w.()]*)\.\.(?![.=])(\w)', r'\1..=\2'), (r'\.unwrap_or\(([^()]+)\)', r'.unwrap_or(\1 + 1)'),
         (r'\.unwrap_or\(0\)', '.unwrap_or(1)'), (r'\.get\((\w+)\)', r'.get(\1 + 1)'), (r'\.windows\(2\)', '.windows(3)'),
         (r'\.skip\((\w+)\)', r'.skip(\1 + 1)'), (r'\.take\((\w+)\)', r'.take(\1 - 1)'), (r'\.chunks_exact\((\w+)\)', r'.chunks(\1)'),
         (r'\.saturating_(add|sub)\(', r'.wrapping_\1('), (r'\.wrapping_(add|sub)\(', r'.saturating_\1('),
         (r'\bi128\b', 'i64'), (r'\bi64::MAX\b', 'i32::MAX as i64'), (r'\bi64::MIN\b', 'i32::MIN as i64'),
         (r'\bi32::MAX\b', '(i32::MAX - 1)'), (r'\bi32::MIN\b', '(i32::MIN + 1)'), (r'\bu8::MAX\b', '(u8::MAX - 1)')]
CLAUSE = re.compile(r' (&&|\|\|) ')
ADDTERM = re.compile(r' ([-+]) ([A-Za-z_][\w.]*(?:\([^()]*\))?|\d[\d_]*)(?=[ ;,)\]])')


def _split_top(code, start, end):
    """top-level ' && ' / ' || ' positions inside code[start:end] (parenthesis depth 0 relative to start)"""
    depth = 0
    out = []
    i = start
    while i < end:
        c = code[i]
        if c in '([{':
            depth += 1
        elif c in ')]}':
            depth -= 1
        elif depth == 0 and code.startswith(' && ', i):
            out.append((i, '&&'))
        elif depth == 0 and code.startswith(' || ', i):
            out.append((i, '||'))
        i += 1
    return out


def mutants4(files):
    for f in files:
        src, lines = code_lines(f'{REPO}/{f}')
        for i, l in lines:
            code = l.split('//')[0]
            for pat, rep in SUBS4:
                for m in re.finditer(pat, code):
                    new = code[:m.start()] + m.expand(rep) + code[m.end():] + l[len(code):]
                    if new != l:
                        yield f, i, l, new, f'{pat.strip()} -> {rep.strip()}'
            # a conjunct / disjunct dropped: only on single-line conditions  `if A && B {`,  `while A || B {`,  `let x = A && B;`
            m = re.match(r'^(\s*(?:\} else )?(?:if|while) )(?!let )(.+)( \{\s*)$', code.rstrip('\n')) or re.match(r'^(\s*(?:let \w+ = |return )?)(.+ (?:&&|\|\|) .+)(;\s*)$', code.rstrip('\n'))
            if m:
                cond = m.group(2)
                ops = _split_top(cond, 0, len(cond))
                if ops and len({o for _, o in ops}) == 1:
                    cuts = [0] + [p for p, _ in ops] + [len(cond)]
                    parts = [cond[cuts[k] + (4 if k else 0):cuts[k + 1]] for k in range(len(cuts) - 1)]
                    for k in range(len(parts)):
                        rest = parts[:k] + parts[k + 1:]
                        yield f, i, l, m.group(1) + f' {ops[0][1]} '.join(rest) + m.group(3), f'clause {k + 1} of {len(parts)} ({ops[0][1]}) dropped'
            for c, ns in CONST_NEIGHBOURS.items():
                for m2 in re.finditer(r'\b' + c + r'\b', code):
                    for n in ns:
                        yield f, i, l, code[:m2.start()] + n + code[m2.end():] + l[len(code):], f'constant {c} -> {n}'
            for b in BYTES:
                pos = code.find(b)
                while pos >= 0:
                    for b2 in BYTES:
                        if b2 != b and (b[2] in '+-JM,/.:<>' and b2[2] in '+-JM,/.:<>' and abs(BYTES.index(b) - BYTES.index(b2)) <= 2):
                            yield f, i, l, code[:pos] + b2 + code[pos + len(b):] + l[len(code):], f'byte {b} -> {b2}'
                    pos = code.find(b, pos + 1)
            for m2 in ADDTERM.finditer(code):
                new = code[:m2.start()] + code[m2.end():] + l[len(code):]
                yield f, i, l, new, f'term "{m2.group(1)} {m2.group(2)}" dropped'


def sh(cmd, cwd=None, env=None, timeout=900):
    import signal
    p = subprocess.Popen(cmd, cwd=cwd, env=env, shell=True, stdout=subprocess.PIPE, stderr=subprocess.STDOUT, text=True, start_new_session=True)
    try:
        out, _ = p.communicate(timeout=timeout)
        return p.returncode, out
    except subprocess.TimeoutExpired:
        try:
            os.killpg(p.pid, signal.SIGKILL)
        except ProcessLookupError:
            pass
        p.wait()
        return 124, 'timeout'


def setup():
    shutil.rmtree(SCR, ignore_errors=True)
    sh('git -C /repo worktree prune')
    os.makedirs(SCR)
    rc, out = sh(f'git -C /repo worktree add -q --detach {REPO} HEAD')
    assert rc == 0, out
    shutil.copytree('/verif/vlib', f'{SCR}/vlib', ignore=shutil.ignore_patterns('target'))
    toml = open(f'{SCR}/vlib/Cargo.toml').read().replace('path = "/repo"', f'path = "{REPO}"')
    open(f'{SCR}/vlib/Cargo.toml', 'w').write(toml)
    open(f'{SCR}/vlib/.cargo/config.toml', 'w').write(f'[net]\noffline = true\n[build]\ntarget-dir = "{SCR}/target"\n')
    # c19 includes the probe's transcript by relative path
    os.makedirs(f'{SCR}/cfgprobe/src')
    shutil.copy('/verif/cfgprobe/src/transcript.rs', f'{SCR}/cfgprobe/src/transcript.rs')
    shutil.copy('/verif/cfgprobe/src/transcript_alloc.rs', f'{SCR}/cfgprobe/src/transcript_alloc.rs')
    os.makedirs(f'{SCR}/nostdprobe/src')
    shutil.copy('/verif/nostdprobe/src/probe_core.rs', f'{SCR}/nostdprobe/src/probe_core.rs')
    home = f'{SCR}/home'
    os.makedirs(f'{home}/build')
    for name in ['regress', 'known_findings.json', 'corpus', 'refs']:
        os.symlink(f'/verif/{name}', f'{home}/{name}')
    os.symlink('/verif/build/zoneinfo', f'{home}/build/zoneinfo')
    os.symlink('/verif/build/glibc_ref', f'{home}/build/glibc_ref')


def code_lines(path):
    """(line number, text) of non-test, non-comment lines"""
    src = open(path).read().split('\n')
    out = []
    for i, l in enumerate(src):
        if re.match(r'\s*#\[cfg\(test\)\]', l) and i + 1 < len(src) and 'mod tests' in src[i + 1]:
            break
        s = l.strip()
        if not s or s.startswith('//') or s.startswith('#[') or s.startswith('use ') or 'unreachable!' in s or s.startswith('pub const fn') or s.startswith('const fn'):
            continue
        out.append((i, l))
    return src, out


def mutants(files):
    for f in files:
        src, lines = code_lines(f'{REPO}/{f}')
        for i, l in lines:
            code = l.split('//')[0]
            for pat, rep in SUBS:
                for m in re.finditer(pat, code):
                    new = code[:m.start()] + rep + code[m.end():] + l[len(code):]
                    if new != l:
                        yield f, i, l, new, f'{pat.strip()} -> {rep.strip()}'
            if 'const' in code or 'fmt' in f:
                pass
            for m in NUM.finditer(code):
                v = int(m.group(1))
                for nv in ([v + 1] if v == 0 else [v + 1, v - 1]):
                    new = code[:m.start(1)] + str(nv) + code[m.end(1):] + l[len(code):]
                    yield f, i, l, new, f'{v} -> {nv}'


def main():
    ap = argparse.ArgumentParser()
    ap.add_argument('--files', default=','.join(FILES))
    ap.add_argument('--limit', type=int, default=0)
    ap.add_argument('--out', default='/verif/build/mutsweep-results.jsonl')
    ap.add_argument('--ids', default=','.join(ORDER))
    ap.add_argument('--stride', type=int, default=1, help='take every n-th mutant')
    ap.add_argument('--offset', type=int, default=0)
    ap.add_argument('--keep', action='store_true')
    ap.add_argument('--ops', type=int, default=1, help='1 = operator swaps / small literals, 2 = conditions, deleted checks, large literals, method swaps, 3 = wrong-variable faults, direction flips, wrapping arithmetic, dropped statements, 4 = dropped clauses / terms, conversions without range check, narrowing casts, byte / constant confusions, index and range shifts')
    ap.add_argument('--scr', default='/tmp/mutsweep', help='scratch directory (one per concurrent worker)')
    a = ap.parse_args()
    set_scr(a.scr)
    setup()
    env = dict(os.environ, CARGO_NET_OFFLINE='true', VERIF_HOME=f'{SCR}/home', VERIF_NO_EVIDENCE='1', VERIF_SEED='0', VERIF_C20_SKIP_ALLOC_ONLY='1')
    ids = a.ids.split(',')
    rc, out = sh('cargo build --release --offline --bin vcheck', cwd=f'{SCR}/vlib', env=env, timeout=1800)
    assert rc == 0, out[-2000:]
    # sanity: unchanged tree passes
    for cid in ids:
        rc, out = sh(f'{SCR}/target/release/vcheck {cid} --tier quick', env=env)
        assert rc == 0, f'{cid} fails on the unchanged tree: {out[-500:]}'
    done = set()
    if os.path.exists(a.out):
        for l in open(a.out):
            try:
                r = json.loads(l); done.add((r['file'], r['line'], r['new']))
            except Exception:
                pass
    res = open(a.out, 'a')
    n = 0
    gen = {1: mutants, 2: mutants2, 3: mutants3, 4: mutants4}[a.ops]
    for k, (f, i, old, new, desc) in enumerate(gen(a.files.split(','))):
        if k % a.stride != a.offset or (f, i + 1, new.strip()) in done:
            continue
        n += 1
        if a.limit and n > a.limit:
            break
        path = f'{REPO}/{f}'
        src = open(path).read().split('\n')
        assert src[i] == old
        src[i] = new
        open(path, 'w').write('\n'.join(src))
        rec = {'file': f, 'line': i + 1, 'old': old.strip(), 'new': new.strip(), 'op': desc}
        t0 = time.time()
        rc, out = sh('cargo test --offline --lib 2>&1 | tail -5', cwd=REPO, env=env, timeout=300)
        if 'test result: ok. 42 passed' not in out:
            rec['status'] = 'killed_by_repo_suite_or_compile'
        else:
            rc, out = sh('cargo build --release --offline --bin vcheck', cwd=f'{SCR}/vlib', env=env, timeout=900)
            if rc != 0:
                rec['status'] = 'harness_build_failed'
            else:
                rec['status'] = 'SURVIVED'
                for cid in ids:
                    rc, out = sh(f'{SCR}/target/release/vcheck {cid} --tier quick', env=env, timeout=240)
                    if rc == 124:
                        # a check that normally takes seconds does not finish: the mutant loops (C07's "loops without bound");
                        # the checks report that as inconclusive, the sweep records it and moves on
                        rec['status'] = 'hang'
                        rec['by'] = cid
                        break
                    if rc == 1:
                        rec['status'] = 'killed'
                        rec['by'] = cid
                        m = re.search(r'FAILURE[^\n]*', out)
                        rec['msg'] = (m.group(0) if m else '')[:300]
                        break
                    if rc not in (0, 1):
                        rec.setdefault('inconclusive', []).append(cid)
        rec['secs'] = round(time.time() - t0, 1)
        res.write(json.dumps(rec) + '\n'); res.flush()
        print(rec['status'], rec.get('by', ''), f, i + 1, desc, rec['secs'], flush=True)
        sh('git checkout -- .', cwd=REPO)
    if not a.keep:
        sh(f'git -C /repo worktree remove --force {REPO}')
        shutil.rmtree(SCR, ignore_errors=True)


if __name__ == '__main__':
    main()
