#!/usr/bin/env bash
# tools/mutant_matrix.sh — run every seeded change against its own property's quick check (and extra IDs given in EXTRA_<name>); writes seeded/RESULTS.md
cd /verif
OUT=seeded/RESULTS.md
{
echo "# Seeded changes vs checks (quick tier, VERIF_SEED=${VERIF_SEED:-0}, repo $(git -C /repo rev-parse --short HEAD))"
echo
echo "| change | property check | exit | seconds | what the check reported |"
echo "|---|---|---|---|---|"
for d in seeded/C*/; do
  name=$(basename "$d"); id=${name%%-*}
  line=$(tools/mutant_run.sh "$name" "$id" 2>&1 | tail -1)
  rc=$(echo "$line" | sed -E 's/.* rc=([0-9]+) .*/\1/'); t=$(echo "$line" | sed -E 's/.* t=([0-9]+)s.*/\1/')
  msg=$(echo "$line" | sed -E 's/^[^ ]+ [^ ]+ rc=[0-9]+ t=[0-9]+s ?//' | tr '|' '/' | cut -c1-220)
  echo "| $name | $id | $rc | $t | $msg |"
done
} > $OUT.tmp
mv $OUT.tmp $OUT
grep -c "| 1 |" $OUT
