#!/usr/bin/env bash
# tools/confirm_mutant.sh <srcdir with patch.diff + demo.rs|demo.sh + meta.json> <name>
# Confirms in a scratch worktree (outside /repo and /verif): suite passes with the patch, demo passes without, demo fails with.
# On success copies the files to /verif/seeded/<name>/ and adds a "confirmed" record to meta.json. Removes the worktree.
set -u
SRC="$1"; NAME="$2"
WT="/tmp/confirm-$NAME"
export CARGO_NET_OFFLINE=true
rm -rf "$WT"; git -C /repo worktree prune
git -C /repo worktree add -q --detach "$WT" HEAD || exit 2
cd "$WT"
res() { echo "$NAME: $*"; }
run_demo() {
  if [ -f "$SRC/demo.rs" ]; then
    mkdir -p tests; cp "$SRC/demo.rs" tests/demo.rs
    cargo test --offline --test demo >/tmp/confirm-$NAME.demo.log 2>&1; rc=$?
    rm -f tests/demo.rs; rmdir tests 2>/dev/null
    return $rc
  else
    bash "$SRC/demo.sh" "$WT" >/tmp/confirm-$NAME.demo.log 2>&1
  fi
}
ok=1
run_demo; d0=$?
[ $d0 -eq 0 ] || { res "demo FAILS on unchanged tree"; ok=0; }
if git apply --check "$SRC/patch.diff" 2>/dev/null; then git apply "$SRC/patch.diff"; else res "patch does not apply"; ok=0; fi
if [ $ok -eq 1 ]; then
  cargo build --offline >/tmp/confirm-$NAME.build.log 2>&1 || { res "does not compile"; ok=0; }
  cargo test --offline >/tmp/confirm-$NAME.test.log 2>&1; t1=$?
  passed=$(grep -E "^test result: ok" /tmp/confirm-$NAME.test.log | head -1 | sed -E 's/.* ([0-9]+) passed.*/\1/')
  [ $t1 -eq 0 ] && [ "${passed:-0}" = "42" ] || { res "suite does not pass with patch (rc=$t1 passed=${passed:-?})"; ok=0; }
  run_demo; d1=$?
  [ $d1 -ne 0 ] || { res "demo PASSES with patch"; ok=0; }
fi
cd /; git -C /repo worktree remove --force "$WT"; rm -rf "$WT"
if [ $ok -eq 1 ]; then
  mkdir -p /verif/seeded/$NAME
  cp "$SRC/patch.diff" /verif/seeded/$NAME/
  [ -f "$SRC/demo.rs" ] && cp "$SRC/demo.rs" /verif/seeded/$NAME/
  [ -f "$SRC/demo.sh" ] && cp "$SRC/demo.sh" /verif/seeded/$NAME/
  python3 - "$SRC/meta.json" "/verif/seeded/$NAME/meta.json" "$(git -C /repo rev-parse --short HEAD)" <<'PY'
import json,sys
try: m=json.load(open(sys.argv[1]))
except Exception as e: m={"note":"agent meta.json unreadable: %s"%e}
m["confirmed"]={"by":"tools/confirm_mutant.sh in a scratch worktree of /repo","base_commit":sys.argv[3],"suite_with_patch":"42 unit tests + doc tests pass","demo_without_patch":"passes","demo_with_patch":"fails"}
json.dump(m,open(sys.argv[2],"w"),indent=1)
PY
  res "CONFIRMED"
else
  res "REJECTED"
fi
