#!/usr/bin/env bash
# tools/round_process.sh <round tag, e.g. r8> <Cxx>  — confirm the two changes an agent left under /tmp/<round>/<Cxx>/out/m{1,2}
# (scratch worktree), keep them as seeded/<Cxx>-<round>m<N>/, run the property's own quick check against each (in /repo, undone afterwards).
set -u
R="$1"; ID="$2"
cd /verif
for n in 1 2; do
  src="/tmp/$R/$ID/out/m$n"; name="$ID-${R}m$n"
  [ -f "$src/patch.diff" ] || { echo "$name: no patch"; continue; }
  tools/confirm_mutant.sh "$src" "$name" | tail -1
  [ -d "seeded/$name" ] || continue
  flock /tmp/repo-mutant.lock tools/mutant_run.sh "$name" "$ID"
done
